#!/bin/bash
# For each given property id: take the two seeded changes produced in /tmp/mut-<id>/seeded/{A,B}, confirm them in the
# scratch worktree (suite passes with the change, demo fails with it and passes without), run every check against
# them (quick tier) and keep them under /verif/seeded/<id>-<A|B>/ with a meta.json.
set -u
SRC_PREFIX="${SRC_PREFIX:-/tmp/mut-}"
SUFFIX="${SUFFIX:-}"
for id in "$@"; do
  for V in A B; do
    SRC=$SRC_PREFIX$id/seeded/$V
    [ -f "$SRC/patch.diff" ] || { echo "$id-$V: no patch"; continue; }
    DST=/verif/seeded/$id-$V$SUFFIX
    mkdir -p "$DST"
    cp "$SRC/patch.diff" "$SRC/demo.rs" "$SRC/NOTES.md" "$DST/" 2>/dev/null
    conf=$(/verif/tools/confirm_seeded.sh $SRC_PREFIX$id $V 2>&1)
    echo "$conf" > "$DST/confirm.log"
    if [ -n "${SKIP_TRY:-}" ]; then
      # confirmation only (touches the scratch worktree, not /repo); detection is filled in by tools/refresh_seeded.sh
      [ -f "$DST/checks.log" ] || echo "(not run yet)" > "$DST/checks.log"
    else
      res=$(/verif/tools/try_seeded.sh "$DST/patch.diff" 2>&1)
      echo "$res" > "$DST/checks.log"
    fi
    python3 - "$id" "$V$SUFFIX" "$DST" <<'PY'
import sys,json,re
pid,V,dst=sys.argv[1:4]
conf=open(dst+'/confirm.log').read(); res=open(dst+'/checks.log').read()
clean=re.search(r'clean tree \+ demo: test result: (\w+)\. (\d+) passed; (\d+) failed',conf)
withc=re.search(r'with change: test result: (\w+)\. (\d+) passed; (\d+) failed',conf)
failing=re.findall(r'test (tests::[\w:]+) \.\.\. FAILED',conf)
detected=re.findall(r'^(C\d+): DETECTED\s+(.*)$',res,re.M)
missed=re.findall(r'^(C\d+): missed',res,re.M)
notes=open(dst+'/NOTES.md').read() if True else ''
meta={"id":pid+"-"+V,"breaks_property":pid,
 "needs_to_manifest":"see NOTES.md (written by the independent sub-agent that produced the change)",
 "confirmed":{"clean_tree_plus_demo":clean.group(0) if clean else None,"with_change":withc.group(0) if withc else None,
   "failing_tests_with_change":sorted(set(failing)),
   "original_suite_passes_with_change": bool(withc) and all(f.startswith('tests::seeded_demo') for f in failing) and (int(withc.group(2))>=532),
   "demo_passes_without_change": bool(clean) and clean.group(3)=='0',
   "demo_fails_with_change": any('seeded_demo_'+V[0].lower() in f for f in failing)},
 "what_was_run":["tools/confirm_seeded.sh /tmp/mut-%s %s  (cargo test --offline --lib in the scratch worktree, clean and with the change)"%(pid,V),
                 "tools/try_seeded.sh seeded/%s-%s/patch.diff  (git -C /repo apply; every ./check <Cxx> quick; git -C /repo checkout -- .)"%(pid,V)],
 "detected_by":[{"check":c,"classes":d.strip()} for c,d in detected],
 "missed_by":missed}
json.dump(meta,open(dst+'/meta.json','w'),indent=1)
print(pid+'-'+V,'confirmed' if meta['confirmed']['original_suite_passes_with_change'] and meta['confirmed']['demo_fails_with_change'] and meta['confirmed']['demo_passes_without_change'] else 'NOT CONFIRMED','| detected by',[c for c,_ in detected],'| target',pid,'DETECTED' if pid in [c for c,_ in detected] else 'MISSED')
PY
  done
done

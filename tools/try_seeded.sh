#!/bin/bash
# Apply a seeded change to /repo, run the given checks (default: all) at the quick tier, undo the change.
#   tools/try_seeded.sh <patch.diff> [Cxx ...]
# Prints one line per check: DETECTED / missed, and restores /repo (git checkout -- .) in every case.
set -u
PATCH="$(readlink -f "$1")"; shift
IDS="${*:-C03 C04 C05 C06 C07 C08 C09 C10 C13 C16 C18 C19 C20}"
cd /repo || exit 2
if [ -n "$(git status --porcelain --untracked-files=no)" ]; then echo "refusing: /repo has local modifications"; exit 2; fi
git apply "$PATCH" || { echo "patch does not apply"; exit 2; }
trap 'git -C /repo checkout -- . ; echo "(/repo restored)"' EXIT
cd /verif
./check build || { echo "BUILD FAILED with the patch"; exit 2; }
for id in $IDS; do
  out=$(VERIF_SEED=${VERIF_SEED:-1} ./check $id quick --no-evidence 2>&1)
  rc=$?
  if [ $rc -eq 1 ]; then
    echo "$id: DETECTED  $(echo "$out" | grep -E '^violation-class' | head -3 | tr '\n' ';')"
    echo "$out" | grep -E "^VIOLATION" | head -2
  elif [ $rc -eq 0 ]; then
    echo "$id: missed"
  else
    echo "$id: harness error (exit $rc)"; echo "$out" | tail -3
  fi
done

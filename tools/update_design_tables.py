#!/usr/bin/env python3
"""Regenerates the tables of the kept seeded changes at the end of DESIGN.md §12.8 (between two markers)."""
import subprocess, re, os, json
root='/verif'
rounds=sorted({(re.match(r'^C\d+-[ABC](\d*)$',d).group(1) or '1') for d in os.listdir(root+'/seeded') if re.match(r'^C\d+-[ABC](\d*)$',d)}, key=int)
out=['<!-- seeded-tables:begin -->','']
tot=0; hit=0
for r in rounds:
    if r=='1': continue
    t=subprocess.check_output(['python3',root+'/tools/seeded_table.py',r]).decode()
    n=t.count('\n| C')
    out.append('**Round %s** (%d changes; checks run per change: its target and, up to round 9, the neighbouring checks - see `meta.json.checks_run`)\n'%(r,n))
    out.append(t)
for d in os.listdir(root+'/seeded'):
    m=json.load(open(root+'/seeded/%s/meta.json'%d))
    tot+=1
    if m['breaks_property'] in [x['check'] for x in m.get('detected_by',[])]: hit+=1
out.append('Over all rounds (round 1 included): **%d kept changes, %d caught by the check of the property they were written against**; the others are explained in the table of misses above (caught by a neighbouring check, outside the statement, or in need of inputs that are not valid Conway values).\n'%(tot,hit))
out.append('<!-- seeded-tables:end -->')
p=root+'/DESIGN.md'
s=open(p).read()
block='\n'.join(out)
if '<!-- seeded-tables:begin -->' in s:
    s=re.sub(r'<!-- seeded-tables:begin -->.*<!-- seeded-tables:end -->',lambda m:block,s,flags=re.S)
else:
    s=s.rstrip('\n')+'\n\n'+block+'\n'
open(p,'w').write(s)
print('tables written:',tot,'changes,',hit,'caught by target')

#!/usr/bin/env python3
"""Markdown table of the kept seeded changes (seeded/*/meta.json + first line of NOTES.md).
   usage: tools/seeded_table.py [suffix ...]   e.g. tools/seeded_table.py 2 3   ('' = round 1)"""
import json, os, re, sys
root = os.path.join(os.path.dirname(os.path.abspath(__file__)), '..', 'seeded')
want = sys.argv[1:] or None
rows = []
for d in sorted(os.listdir(root)):
    m = re.match(r'^(C\d+)-([ABC])(\d*)$', d)
    if not m:
        continue
    if want is not None and (m.group(3) or '1') not in want:
        continue
    meta = json.load(open(os.path.join(root, d, 'meta.json')))
    notes = open(os.path.join(root, d, 'NOTES.md')).read().strip().splitlines()
    title = notes[0].lstrip('# ').strip() if notes else ''
    title = re.sub(r'^(Seeded )?[Cc]hange [AB]\s*[:\-–—]\s*', '', title)
    title = re.sub(r'^C\d+\s*[-–—:]?\s*(seeded )?(change )?[AB]\s*[:\-–—]\s*', '', title, flags=re.I)
    det = meta.get('detected_by', [])
    target = meta['breaks_property']
    by = [x['check'] for x in det]
    rules = ''
    for x in det:
        if x['check'] == target:
            rules = ', '.join(sorted(set(re.findall(r'(C\d+\.[\w.]+) \[', x['classes']))))
    conf = meta.get('confirmed', {})
    ok = conf.get('original_suite_passes_with_change') and conf.get('demo_fails_with_change') and conf.get('demo_passes_without_change')
    rows.append((d, title, ', '.join(by) if by else '—', rules if rules else ('(not caught: see text)' if target not in by else ''), 'yes' if ok else 'NO'))
print('| id | change | caught by (quick tier) | rules of the target check | confirmed |')
print('|---|---|---|---|---|')
for r in rows:
    print('| ' + ' | '.join(r) + ' |')

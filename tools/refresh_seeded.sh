#!/bin/bash
# Re-run every check against kept seeded changes (detection part only; confirmation logs are kept).
#   tools/refresh_seeded.sh <id-V> ...      e.g. tools/refresh_seeded.sh C07-A C07-B
set -u
for x in "$@"; do
  DST=/verif/seeded/$x
  res=$(/verif/tools/try_seeded.sh "$DST/patch.diff" 2>&1)
  echo "$res" > "$DST/checks.log"
  python3 - "$DST" <<'PY'
import sys,json,re
dst=sys.argv[1]
m=json.load(open(dst+'/meta.json')); res=open(dst+'/checks.log').read()
detected=re.findall(r'^(C\d+): DETECTED\s+(.*)$',res,re.M)
m['detected_by']=[{"check":c,"classes":d.strip()} for c,d in detected]
m['missed_by']=re.findall(r'^(C\d+): missed',res,re.M)
json.dump(m,open(dst+'/meta.json','w'),indent=1)
print(m['id'],'detected by',[c for c,_ in detected],'| target', 'DETECTED' if m['breaks_property'] in [c for c,_ in detected] else 'MISSED')
PY
done

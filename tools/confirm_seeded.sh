#!/bin/bash
# Confirm a seeded change in its scratch worktree: (i) clean tree + demo => demo passes, (ii) change applied =>
# the original suite passes and the demo fails.   tools/confirm_seeded.sh /tmp/mut-Cxx A|B
set -u
WT="$1"; V="$2"; v=$(echo "$V" | tr 'ABCDEF' 'abcdef')
cd "$WT" || exit 2
git checkout -- rust/src >/dev/null 2>&1
# register the demo
cp "seeded/$V/demo.rs" "rust/src/tests/seeded_demo_$v.rs"
grep -q "mod seeded_demo_$v;" rust/src/tests/mod.rs || echo "mod seeded_demo_$v;" >> rust/src/tests/mod.rs
cd rust
clean=$(CARGO_NET_OFFLINE=true cargo test --offline --lib 2>&1 | grep -E "^test result" | head -1)
echo "clean tree + demo: $clean"
cd .. && git apply "seeded/$V/patch.diff" || { echo "PATCH DOES NOT APPLY"; exit 2; }
cd rust
out=$(CARGO_NET_OFFLINE=true cargo test --offline --lib 2>&1)
echo "with change: $(echo "$out" | grep -E "^test result" | head -1)"
echo "failing tests: $(echo "$out" | grep -E "^test .* FAILED" | tr '\n' ' ')"
echo "compile errors: $(echo "$out" | grep -c '^error')"
cd .. && git checkout -- rust/src >/dev/null 2>&1
git status --short | grep -v "^??" | head -3

#!/bin/bash
# Final detection matrix: every kept seeded change (or the ids given) against its target check and the
# neighbouring checks most likely to see it (all 13 would take > 5 h for ~180 changes; the full matrix of the
# first rounds is kept in their checks.log history in git).  Writes checks.log and meta.json (detected_by,
# missed_by, checks_run).  Never edit /verif/sim or /repo while this runs.
#   tools/refresh_matrix.sh [id ...]        ALL=1 runs all 13 checks for the given ids, TARGET_ONLY=1 only the target check
set -u
cd /verif
ids=("$@"); [ ${#ids[@]} -eq 0 ] && ids=($(ls seeded))
declare -A NB=( [C03]="C16 C04" [C04]="C16 C09" [C05]="C20 C06" [C06]="C07 C18" [C07]="C19 C06" [C08]="C05 C06" [C09]="C18 C04" [C10]="C09 C18" [C13]="C03" [C16]="C03 C04" [C18]="C06 C09" [C19]="C07 C05" [C20]="C05 C16" )
for x in "${ids[@]}"; do
  DST=/verif/seeded/$x; [ -f "$DST/patch.diff" ] || continue
  T=${x%%-*}
  if [ -n "${ALL:-}" ]; then CH="C03 C04 C05 C06 C07 C08 C09 C10 C13 C16 C18 C19 C20"; else
    CH="$T ${NB[$T]}"; [ -n "${TARGET_ONLY:-}" ] && CH="$T"; grep -q "batch_tools" "$DST/patch.diff" && CH="$CH C13"
    CH=$(echo $CH | tr ' ' '\n' | awk '!s[$0]++' | tr '\n' ' ')
  fi
  res=$(/verif/tools/try_seeded.sh "$DST/patch.diff" $CH 2>&1)
  echo "$res" > "$DST/checks.log"
  python3 - "$DST" "$CH" <<'PY'
import sys,json,re
dst,ch=sys.argv[1],sys.argv[2].split()
m=json.load(open(dst+'/meta.json')); res=open(dst+'/checks.log').read()
detected=re.findall(r'^(C\d+): DETECTED\s+(.*)$',res,re.M)
m['detected_by']=[{"check":c,"classes":d.strip()} for c,d in detected]
m['missed_by']=re.findall(r'^(C\d+): missed',res,re.M)
m['checks_run']=ch
m['what_was_run']=[w for w in m.get('what_was_run',[]) if 'try_seeded' not in w]+["tools/try_seeded.sh seeded/%s/patch.diff %s  (git -C /repo apply; ./check <Cxx> quick for these checks; git -C /repo checkout -- .)"%(m['id'],' '.join(ch))]
json.dump(m,open(dst+'/meta.json','w'),indent=1)
ok = m['breaks_property'] in [c for c,_ in detected]
print(m['id'],'target', 'DETECTED' if ok else 'MISSED', '| detected by',[c for c,_ in detected], '| applied' if 'does not apply' not in res and 'error: patch' not in res else '| PATCH PROBLEM')
PY
  rm -f /verif/replays/*.json
done

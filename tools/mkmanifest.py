#!/usr/bin/env python3
"""Regenerates /verif/MANIFEST.json from the table below (single source of truth for the registered checks)."""
import json, subprocess, sys
NA = {
 "C01":"pure function of one argument (from_bytes(to_bytes(v)) = v): no RNG draw, hash-ordered iteration, state, schedule or fault enters it; generating arguments from a seed would be property-based testing, not simulation (DESIGN §7)",
 "C02":"totality over single inputs: the only 'fault' is the input itself (fuzzing); public parsers take complete in-memory buffers, the generic-reader trait is crate-private, so EOF/EINTR/short reads cannot be injected at a reachable seam (DESIGN §7)",
 "C11":"pure codecs of header byte and payload; no schedule, state or fault (DESIGN §7)",
 "C12":"pure functions of key, message, path, password, salt and nonce; OsRng only supplies a fresh key value, no clause depends on a sequence of draws (DESIGN §7)",
 "C14":"closed arithmetic on the arguments of one call (DESIGN §7)",
 "C15":"closed arithmetic on the arguments of one call (DESIGN §7)",
 "C17":"pure conversions; insertion order is part of the value, not an execution history (DESIGN §7)",
}
PLANNED = ["C03","C04","C05","C06","C07","C08","C09","C10","C13","C16","C18","C19","C20"]
TECH = "deterministic simulation with fault injection (seeded search over RNG schedules, hash orders, operation histories and faults; minimised replayable traces)"
CHECKS = {
 "C08": ("seeded search over wallet sessions x RNG schedules of the random strategies (every gen_range answered by the simulator, 8 samplers), duplicate/overlapping offers (also in differing encodings: offered UTxOs partly decoded from another producer's CBOR) and retries; one run in six is a full wallet session (script inputs, mints and burns, deposits, governance) cut to end in a plain selection; checked against ground-truth UTxO values on the ledger's set view of the inputs and a largest-first refinement; a clean batch is evidence, not proof",
         "TransactionBuilder::min_fee as measuring device; world UTxOs truthful and ledger-valid; sampling, not enumeration"),
 "C05": ("seeded search over full wallet sessions (all balancing entry points x strategies, certificates, withdrawals, mint/burn, proposals, donation, multi-output change; histories with removals, replacements, observer calls, clone hand-overs, values / certificates / proposals / UTxOs partly decoded from another producer's CBOR, swarm-varied feature mixes) with the RNG and hash seams owned by the simulator; every emitted transaction is re-read by an independent CBOR reader and the preservation-of-value equation is evaluated per asset in big integers against ground-truth UTxO values",
         "harness reading of the Conway preservation rule and deposit table; world UTxOs truthful; sampling, not enumeration"),
 "C06": ("seeded search over wallet sessions biased to CBOR width boundaries and all witness kinds; each built transaction is signed with exactly the distinct required keys and its fee compared with an independent minimum-fee computation (linear + ex-units + tier-by-tier reference-script fee with exact rationals); fee-request clauses checked",
         "required-witness table and fee formula of notes/ORACLE_SPEC.md; reference scripts charged by their smallest defensible size; truthful declarations by the history; sampling"),
 "C07": ("seeded search over wallet sessions with randomised coins_per_byte / max_value_size / max_tx_size; every output of every built transaction, the collateral return in built bodies and the one the builder holds after every successful checked collateral call are checked for min-ADA and value size, the signed transaction for max_tx_size, and min_ada_for_output on each observed output against both bounds",
         "builder clause claimed; the stand-alone function clause only on outputs sessions produce; sampling"),
 "C09": ("seeded search over Plutus wallet sessions (scripts and datums by value / inline / by reference, extra and duplicated datums, cost models V1-V3, metadata; coin selection moves spend indices); body[7] and body[11] of every built transaction are recomputed from the byte spans of the emitted auxiliary data, redeemers and datums plus the harness's own language-views encoding; the stand-alone hashing helpers are checked on the same artefacts",
         "script data hash judged only when calc_script_data_hash was the last script-affecting operation; harness reading of the script-integrity definition; sampling"),
 "C10": ("seeded search over Plutus wallet sessions with seeded insertion permutations; every redeemer carries a unique payload, is resolved against the emitted body under the ledger's pointer rules and compared with the item the history attached it to; pointers pairwise distinct; pointed certificates / accounts / voters script-locked; attached redeemers present; histories with mistaken witness attempts, cancelling mints and zero withdrawals",
         "reward accounts / voters ranked in the ledger's derived order (script credentials before key credentials); sampling"),
 "C18": ("seeded search over wallet sessions with overlapping signers across six sources and scripts by value or reference; required scripts, datums and redeemers derived from the emitted body and the world are looked up in the witness set / reference inputs; full_size() is compared with the byte length after signing with exactly the distinct required keys (0 <= diff < 101); truthful empty signer declarations for scripts satisfiable by time alone",
         "truthful declarations by the history (native signers, reference-script sizes); extraneous scripts not judged; sampling"),
 "C19": ("seeded search over sessions with the three collateral-setting paths, return outputs with fewer/equal/more/foreign assets, percentages 0-1000, the percentage helper running a full random selection, failing helpers after which the session continues, the unchecked setters before a checked call with the same output, and checked calls repeated (also with the return's datum in another encoding); fields 13/16/17 of the emitted body are checked as a whole-value equation against ground-truth collateral UTxOs, return min-ADA, percentage, and residue after failure",
         "judged only when a helper was the last collateral-affecting operation; sampling"),
 "C20": ("seeded search over sessions with certificates of all kinds (incl. pre-Conway), withdrawals and proposals in seeded orders; on every body a session builds (or that is forced from the final builder state) get_deposit / get_implicit_input are compared with the node's table and with the builder's own figures, including totals beyond 64 bits (explicit amounts near 2^63 / 2^64, must be errors on both sides) a typed withdrawal map filled by the history's own set/replace calls, and the certificates and distinct proposals of the body against what the history's successful calls handed over",
         "weakest fit of the technique: a cross-invariant between two components on reached states (built, or forced out of the final builder state); sampling"),
 "C13": ("seeded search over create_send_all calls (UTxO sets up to 60 / 400 entries, up to 24 policies and 30 assets per UTxO, names 0-32 bytes, amounts across CBOR width classes, Byron and Shelley owners, UTxOs partly decoded from another producer's CBOR, pure-ADA values with an empty asset map, policy entries without assets, small K9 limits so that several outputs and transactions are needed, adaptive value-size limits that bind on the largest value a first measurement produced), each executed under K hash-key schedules of the batcher's hash containers; every returned transaction is re-read and checked: partition of the supplied set, target-only outputs, preservation of value, minimum fee of the bytes with real signatures, min-ADA, value and transaction size",
         "groupings may differ between hash orders, each result must be valid; script-owned UTxOs are expected to be refused; the Conway surcharge for reference scripts carried by spent UTxOs is outside the statement's fee clause and only recorded; sampling"),
 "C16": ("seeded search over three actors: collection histories for 10 set-like types (add with repeats, decode from harness-written bytes repeating elements in tagged/untagged/definite/indefinite/wide encodings and with element occurrences in another producer's encoding, elements arriving through the element decoders, from_json with repeats, clone - the collection a copy was taken from is held and re-checked after every later step -, restart from bytes/hex/JSON) against a first-insertion-dedup vector model; asset maps filled in seeded permutations read back for canonical key order; wallet sessions whose every successful build - at the end and in the middle of the history - is repeated on the builder snapshot kept with it and on clones, under fresh hash keys, after everything that happened to the live builder later, and compared byte for byte",
         "two builders filled the same way are replayed but only recorded (the statement speaks of rebuilding an unchanged builder); the stand-alone Mint list type is insertion ordered by design and only its per-policy names are judged; sampling"),
 "C03": ("seeded search over wallet sessions of a profile that enables every feature (all certificate kinds, all governance actions incl. parameter updates, votes, withdrawals, mint, all output forms, all witness kinds, the three auxiliary-data shapes) plus create_send_all calls; every emitted transaction, as built and again after signing, is validated byte by byte by a strict schema-directed Conway validator that shares no code with the library or cbor_event",
         "claimed for transactions the builder and the batcher emit (typed values that never occur in a built transaction are not claimed); harness transcription of the Conway CDDL; key order of struct-like maps not judged; sampling"),
 "C04": ("seeded search over multi-party signing histories: a transaction built by a simulated wallet session, optionally presigned by the wallet and re-encoded by a foreign peer (wide heads, indefinite containers, chunked byte strings, permuted maps, untagged sets, the pre-Alonzo 3-element transaction shape), is loaded by up to 5 signer nodes from bytes or hex, signed through both APIs with key / Icarus / Daedalus keys, restarted, forwarded in seeded order, delivered twice, merged witness by witness, handed on as in-memory copies (a copy is a separate party: what its holder does must not reach the owner of the original); after every step every node's copy is checked against the original byte spans, Blake2b-256 of the original body and Ed25519 verification; every datum span is relayed through the PlutusData codec",
         "encodings the decoder rejects are counted, not claimed; Ed25519 determinism is used to know the expected witness; quantifier covers add-signature operations; sampling"),
}
def main():
    man = {"version":1,"setup_cmd":"./check build",
      "hooks":{"guard":"verif-hooks",
        "enable":"cargo feature of /repo/rust; the simulator depends on cardano-serialization-lib = { path = \"/repo/rust\", features = [\"verif-hooks\"] }, so every check recompiles the library from /repo's working tree",
        "baseline_off_cmd":"cd /repo/rust && cargo test --workspace --no-fail-fast --offline",
        "source_commits": subprocess.run(["git","-C","/repo","log","--format=%h %s","--grep=^verif-hooks:"],capture_output=True,text=True).stdout.strip().split("\n"),
        "add_only":False},
      "engines":[{"name":"cslsim","path":"sim","serves_properties":sorted(CHECKS.keys()),
        "kind_free_text":"deterministic simulator: seeded wallet sessions / actor histories against the real library, RNG and hash-order seams owned by the simulator, independent CBOR reader and Conway ledger oracle, minimiser and replay"}],
      "checks":[],
      "notes":"see DESIGN.md; known_findings.json lists repaired defects (status fixed) and recorded findings (status known); regress/<id>/*.json are minimised replays of repaired defects that every run re-executes",
      "not_applicable":[{"property_id":k,"reason":v} for k,v in sorted(NA.items())]}
    for pid in sorted(CHECKS):
        text,note = CHECKS[pid]
        man["checks"].append({"property_id":pid,"quick_cmd":"./check %s quick"%pid,"thorough_cmd":"./check %s thorough"%pid,
          "evidence_file":"evidence/%s.json"%pid,"replay_cmd_template":"./check replay {path}","engine":"cslsim",
          "level_claimed":{"category":"exploration","text":text,"design_ref":"DESIGN.md §4 "+pid},
          "level_note":note,"technique":TECH})
    for pid in PLANNED:
        if pid not in CHECKS:
            man["not_applicable"].append({"property_id":pid,"reason":"claimed in DESIGN.md §4, but its check is not built yet in this revision of /verif (no claim is made until it is)"})
    json.dump(man,open("/verif/MANIFEST.json","w"),indent=1)
    import jsonschema
    jsonschema.validate(man,json.load(open("/root/.vp/MANIFEST.schema.json")))
    print("MANIFEST.json written and valid:",len(man["checks"]),"checks")
main()

#!/usr/bin/env python3
# Writes the prompt files of one round of independently seeded changes:
#   tools/mkprompts.py <round> [Cxx ...]      ->  /tmp/agent<round>_prompt_<Cxx>.txt, worktrees /tmp/mut<round>-<Cxx>
# A sub-agent gets: the property record, its scratch worktree, and the *titles* of the changes earlier rounds produced
# (so that it does not repeat them) - nothing else from /verif.
import os, re, sys, json, subprocess

rnd = sys.argv[1]
pids = sys.argv[2:] or ['C03','C04','C05','C06','C07','C08','C09','C10','C13','C16','C18','C19','C20']
ORD = {'10':'TENTH','11':'ELEVENTH','12':'TWELFTH','13':'THIRTEENTH','14':'FOURTEENTH'}.get(rnd, rnd+'th')

props = {}
for l in open('/verif/properties.jsonl'):
    p = json.loads(l); props[p['id']] = l.strip()

titles = []
for d in sorted(os.listdir('/verif/seeded')):
    try: n = open('/verif/seeded/%s/NOTES.md' % d).read().strip().splitlines()
    except Exception: continue
    t = n[0].lstrip('# ').strip() if n else ''
    t = re.sub(r'^(Seeded )?[Cc]hange [AB]\s*[:\-–—]\s*', '', t)
    titles.append('- ' + t[:170])
used = '\n'.join(titles)

STEER = {
 '10': '''Prefer changes of one of these kinds, which earlier rounds used least:
     (a) TWO COOPERATING SITES that each look fine alone (a helper whose contract is shifted slightly and one of its several callers that is not adapted; a value normalised in one place and compared un-normalised in another);
     (b) STATE THAT SURVIVES something it should not: a clone, a `build()` that is followed by further operations and a second `build()`, a sub-builder handed to the transaction builder twice, a refused call that leaves a trace, a removal that forgets one of several parallel tables;
     (c) a RARE RANDOM OUTCOME of the random-improve strategies or a rare combination of configuration options (`prefer_pure_change`, `do_not_burn_extra_change`, `deduplicate_explicit_ref_inputs_with_regular_inputs`, zero fee coefficients, zero deposits, a tiny `max_value_size` / `max_tx_size`, a reference-script price);
     (d) an INTERACTION between two features that are each tested alone (collateral + change, donation + burn, reference scripts + native scripts, Byron addresses + scripts, votes + proposals + certificates in one transaction, inline datum + datum hash of the same datum, the same script under several purposes).''',
 '11': '''Prefer changes of one of these kinds, which earlier rounds used least:
     (a) SHARED or CACHED state: a memo (Cell / RefCell / Rc) or lazily computed field that one of several mutators forgets to invalidate, clones that share something they should each own, a derived figure kept next to the data it is derived from;
     (b) ORDER OF CALLS ACROSS OBJECTS: a sub-builder (inputs, mint, certificates, withdrawals, votes, proposals) that is handed to the transaction builder, modified afterwards and handed over again - or not handed over again; the builder queried (fee, size, totals, build) between two steps; the same call made twice (a retry);
     (c) ERROR PATHS: a call that fails after it has already changed part of the state, and the caller carries on (adds more funds, retries, builds anyway with build_tx_unsafe / build);
     (d) the SECOND of two balancing attempts, a selection after a selection, change after a removed output - anything where the first pass leaves something behind that the second pass trusts.''',
 '12': '''Prefer changes of one of these kinds, which earlier rounds used least:
     (a) an ASYMMETRY between two code paths that have to agree and that no single test compares: the estimate and what is finally emitted (mock witness set vs real witness set, size model vs serializer, fee probe vs final fee), a stand-alone helper and the builder's own bookkeeping, the first and the second way of doing the same thing (`*_utxo` vs `*_input` entry points, typed setter vs builder, legacy vs Conway form of a certificate);
     (b) a NUMERIC EDGE that needs a particular magnitude: counts of 23/24, 255/256 items, lengths of 23/24, 64/65, 255/256 bytes, amounts around 2^16, 2^32, 2^63, 2^64-1, a percentage or price with a remainder, zero as a legal value (zero deposit, zero fee coefficient, zero withdrawal, zero ex-units, 0-of-k);
     (c) a RARE VARIANT of an enum that the common paths never see (pointer and Byron/Daedalus addresses, move-instantaneous-rewards, genesis delegation, committee certificates, the seven governance actions, Plutus V1/V3 next to V2, native `0 of k` / time-only scripts, the three auxiliary-data shapes, legacy array-form outputs);
     (d) something that shows only when THREE conditions meet (e.g. a configuration option AND a kind of input AND a retry).''',
 '13': '''Prefer changes of one of these kinds, which earlier rounds used least:
     (a) the LESS-VISITED PUBLIC ENTRY POINTS and what they leave behind for the common ones: `remove_*` functions, the plain (unchecked) setters next to the checked ones, deprecated setters (`set_mint`, `set_mint_asset`, `add_mint_asset`, `set_certs`, `set_withdrawals`), `fee_for_input` / `fee_for_output` / `min_fee` / `full_size` / `output_sizes` probes between two steps, `get_*` functions that hand out a collection the caller then changes and hands back, `build_tx_unsafe` / `build` next to `build_tx`;
     (b) values that ARRIVE THROUGH A DECODER (from_bytes / from_hex / from_json) in another producer's legal encoding and are then used by the builder flows: what the value remembers about its encoding, what equality / ordering / hashing of such a value says, what happens when a decoded and a constructed copy of the same value meet in one collection or one transaction;
     (c) hand-written `Clone` / `PartialEq` / `Ord` / `Hash` / `Default` of types that serve as map keys or set elements, and conversions between a typed collection and the builder that owns a copy of it;
     (d) things that only show on the SECOND object: a second transaction built from the same sub-builders, a builder cloned half-way with both halves continued, a `FixedTransaction` that is signed, serialized, loaded again and signed again.''',
'14': '''Prefer changes of one of these kinds, which earlier rounds used least:
     (a) a distinction between ABSENT and EMPTY/ZERO that one of two sites gets wrong (`is_none()` vs `is_empty()`, `Some(0)` vs `None`, an empty collection that is set vs never set, a default configuration value vs an explicit equal one);
     (b) CHECKED vs SATURATING vs WRAPPING arithmetic and integer-width conversions (u64 <-> i128 <-> BigNum <-> Int, `as` casts, `try_into`) on a path where only large but legal amounts (near 2^63, 2^64-1, 45e15 total supply) or a negative mint meet it;
     (c) ITERATION ORDER: a BTreeMap replaced by an insertion-ordered map (or back), a sort key that ties, `first()`/`last()`/`max_by` on ties, stable vs unstable sort, where a later step depends on the order;
     (d) a guard placed one statement too late or too early (state is changed, then the error is returned; an early `return Ok` before a bookkeeping step).''',
}.get(rnd, '')

TEMPLATE = '''You are helping to evaluate a verification harness by producing realistic, subtle bugs ("seeded changes") in a Rust library.

The library is Emurgo/cardano-serialization-lib (Rust crate in `{wt}/rust`), checked out as a scratch git worktree at `{wt}`. Work ONLY inside `{wt}` (never touch /repo or /verif, and do not read anything under /verif). The machine is offline: always use `CARGO_NET_OFFLINE=true cargo ... --offline`. The existing test suite is run with `cd {wt}/rust && CARGO_NET_OFFLINE=true cargo test --offline --lib 2>&1 | tail -5` (532 tests pass on the unmodified tree; a first build takes a few minutes). Ignore the cargo feature `verif-hooks` and the file `rust/src/verif_hooks.rs` (do not enable, modify or rely on them).

Here is a semantic property that the library is supposed to satisfy (JSON record):

{prop}

YOUR TASK: produce TWO independent changes (A and B) to the library source under `{wt}/rust/src` (not to tests), each of which
  1. BREAKS the property above (for some input / history / random outcome),
  2. still COMPILES, and
  3. still PASSES the whole existing test suite (all 532 tests), and
  4. is REALISTIC and SUBTLE: the kind of slip a maintainer could make in a refactoring or "optimisation" (an off-by-one, a wrong comparison, a forgotten case, a swapped argument, a stale cache, a dropped field in one of several code paths, two sites that each look fine alone). It must need something specific to manifest: a particular random outcome of the random coin-selection strategies, a multi-step sequence of builder operations, an unusual but legal input (a CBOR width boundary, a rare certificate kind, overlapping keys, a particular insertion order), or a failure followed by a retry. It must NOT be something ordinary use would expose at once (do not break the common path).
     Do NOT make the obvious one-line change in the most prominent function named in the anchors, and do not break the common path (ordinary use must keep working).
     This is the {ORD} round of this exercise. Below is the list of all changes earlier rounds produced (for all properties). Do not repeat any of them or a close variant (same function and same mechanism); find something NEW - a place nobody has touched yet, or a new mechanism in a known place. Inputs must be VALID for the Conway ledger (no asset quantities of zero in UTxO values, no transaction output index above 65535, no asset names longer than 32 bytes, no burns below -2^63) - earlier changes that needed such inputs were not useful. The property must be broken BY ITS LETTER (read the statement carefully: what it quantifies over, what it is conditional on), through the public API only. For every property except C13 stay out of `create_send_all` / `builders/batch_tools`. For C08 the change must make a selection that reports SUCCESS unsound or largest-first misbehave as described in the statement (not merely fail with another error), and it should be observable WITHOUT relying on `TransactionBuilder::min_fee()` being right (compare with the real minimum fee of the transaction that results).
     {STEER}
     EARLIER CHANGES (titles):
{used}
Each change should be small (a few lines) and different in kind and location from the other one.

For EACH change also write a DEMONSTRATION: a self-contained Rust test (put it in a NEW file `{wt}/rust/src/tests/seeded_demo_a.rs` / `seeded_demo_b.rs`, registered with a `mod seeded_demo_a;` line in `{wt}/rust/src/tests/mod.rs`) that FAILS with the change applied and PASSES on the unmodified tree. Look at existing tests under `rust/src/tests/` (e.g. `tests/builders/tx_builder.rs`, `tests/fakes.rs` helpers) for how to construct values. The demonstration may loop over many seeds/inputs if the failure is probabilistic, but it must fail reliably with the change.

DELIVERABLES (all inside `{wt}`), written at the end:
  - `{wt}/seeded/A/patch.diff` and `{wt}/seeded/B/patch.diff`: `git diff` of ONLY the library change (no test files), relative to the worktree root, against the unmodified HEAD, so that `git apply` works on a clean checkout.
  - `{wt}/seeded/A/demo.rs` and `{wt}/seeded/B/demo.rs`: copies of the demonstration test files.
  - `{wt}/seeded/A/NOTES.md` and `{wt}/seeded/B/NOTES.md`: FIRST LINE = a one-line title of the change; then 5-15 lines: what was changed, why it breaks the property, what exactly is needed for it to manifest, and the exact commands you ran with their results (suite with the change: N passed; demo with the change: failed; demo without the change: passed).
Verify all of this yourself before finishing: (i) clean tree + demo => demo passes; (ii) change applied => `cargo test --offline --lib` shows the 532 original tests passing and the demo failing. At the end leave the working tree of `{wt}` CLEAN of library changes (git checkout the library files) but keep the `seeded/` directory. Do not commit anything. Report briefly what you produced.
'''

for pid in pids:
    wt = '/tmp/mut%s-%s' % (rnd, pid)
    if not os.path.isdir(wt):
        subprocess.check_call(['git', '-C', '/repo', 'worktree', 'add', '-q', '--detach', wt, 'HEAD'])
        subprocess.check_call(['cp', '/repo/rust/Cargo.lock', wt + '/rust/Cargo.lock'])
    s = TEMPLATE.replace('{wt}', wt).replace('{prop}', props[pid]).replace('{ORD}', ORD).replace('{STEER}', STEER).replace('{used}', used)
    open('/tmp/agent%s_prompt_%s.txt' % (rnd, pid), 'w').write(s)
print(len(titles), 'earlier titles;', len(pids), 'prompts written')

#!/usr/bin/env python3
"""Pretty-prints a replay file of any check (wallet session, C04 signing network, C13 send-all call, C16 actors)."""
import json,sys
d=json.load(open(sys.argv[1]))
c=d['case']
print(d['rule'],d['class']); print(d['detail']); print('size',d['size_before'],'->',d['size_after'],'execs',d['shrink_executions'])
dk={'fee_a': 44, 'fee_b': 155381, 'cpb': 4310, 'max_value_size': 5000, 'max_tx_size': 16384, 'key_deposit': 2000000, 'pool_deposit': 500000000, 'ex_prices': [577, 10000, 721, 10000000], 'ref_script_price': [15, 1], 'prefer_pure_change': False, 'dedup_ref_inputs': False, 'do_not_burn': False}
def knobs(k): return {a:b for a,b in k.items() if dk.get(a)!=b}
def session(c, indent=''):
    for i,op in enumerate(c['ops']): print(indent+' op',i,json.dumps(op))
    print(indent+' rng:',c.get('rng'),' hash_seed:',c.get('hash_seed'),' alt_values:',c.get('alt_values',0))
    w=c['world']
    print(indent+' scripts:',json.dumps(w['scripts'])); print(indent+' datums:',json.dumps(w['datums']))
    used=set()
    def walk(x):
        if isinstance(x,dict):
            for k,v in x.items():
                if k in('InUtxo','InLegacy','InDirect','CollUtxo') and isinstance(v,int): used.add(v)
                if k=='utxo' and isinstance(v,int): used.add(v)
                if k=='Ref' and isinstance(v,int): used.add(v)
                if k=='RefIn': used.add(v[0])
                if k in('Select','SelectAndChange','SelectChangeCollateral'): used.update(v[1])
                walk(v)
        elif isinstance(x,list):
            for v in x: walk(v)
    walk(c['ops'])
    for i in sorted(used):
        if i<len(w['utxos']): print(indent+'  utxo',i,json.dumps(w['utxos'][i]))
    print(indent+' knobs (non-default):',knobs(c['knobs']),'network',w['network'],'magic',w['magic'],'decoded_scripts',w.get('decoded_scripts',False))
if isinstance(c,dict) and 'ops' in c and 'world' in c:
    session(c)                                   # wallet session (C05..C10, C18..C20, C08)
elif 'Session' in c:
    print('actor: wallet session'); session(c['Session'])     # C03 / C16
elif 'SendAll' in c or ('offered' in c and 'target' in c):
    s=c.get('SendAll',c)                          # C13 / C03 send-all
    print('send-all to',json.dumps(s['target']),'knobs (non-default):',knobs(s['knobs']),'hash_seeds',s.get('hash_seeds'),'decoded',s.get('decoded',0))
    for i in s['offered']:
        if i<len(s['world']['utxos']): print('  utxo',i,json.dumps(s['world']['utxos'][i]))
elif 'session' in c:
    print('signing network: foreign',c.get('foreign'),'presigned',c.get('presigned'),'legacy_shape',c.get('legacy_shape'),'empty_fields',c.get('empty_fields',0))
    for i,op in enumerate(c['ops']): print(' step',i,json.dumps(op))
    print(' originator session:'); session(c['session'],'  ')
else:
    print(json.dumps(c,indent=1)[:4000])         # C16 collection / asset actors

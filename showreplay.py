#!/usr/bin/env python3
import json,sys
d=json.load(open(sys.argv[1]))
c=d['case']
print(d['rule'],d['class']); print(d['detail']); print('size',d['size_before'],'->',d['size_after'],'execs',d['shrink_executions'])
for i,op in enumerate(c['ops']): print(' op',i,json.dumps(op))
print(' rng:',c.get('rng')); 
w=c['world']
print(' scripts:',json.dumps(w['scripts'])); print(' datums:',json.dumps(w['datums']))
used=set()
def walk(x):
    if isinstance(x,dict):
        for k,v in x.items():
            if k in('InUtxo','InLegacy','InDirect','CollUtxo') and isinstance(v,int): used.add(v)
            if k=='utxo' and isinstance(v,int): used.add(v)
            if k=='Ref' and isinstance(v,int): used.add(v)
            if k=='RefIn': used.add(v[0])
            if k in('Select',): used.update(v[1])
            if k in('SelectAndChange','SelectChangeCollateral'): used.update(v[1])
            walk(v)
    elif isinstance(x,list):
        for v in x: walk(v)
walk(c['ops'])
for i in sorted(used):
    if i<len(w['utxos']): print('  utxo',i,json.dumps(w['utxos'][i]))
dk={'fee_a': 44, 'fee_b': 155381, 'cpb': 4310, 'max_value_size': 5000, 'max_tx_size': 16384, 'key_deposit': 2000000, 'pool_deposit': 500000000, 'ex_prices': [577, 10000, 721, 10000000], 'ref_script_price': [15, 1], 'prefer_pure_change': False, 'dedup_ref_inputs': False, 'do_not_burn': False}
print(' knobs (non-default):',{k:v for k,v in c['knobs'].items() if dk.get(k)!=v}, 'network',w['network'],'magic',w['magic'])

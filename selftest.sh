#!/bin/bash
# Self-tests of the simulator itself (never part of a property verdict; exit 2 = harness error).
#   selftest.sh determinism [runs]   every check: same seed twice in separate processes, 1 worker vs 16 workers,
#                                    and a second VERIF_SEED; per-run event digests and all counters must be identical
#   selftest.sh replays              every regression replay must NOT reproduce on the current (repaired) tree
set -u
HERE="$(cd "$(dirname "$0")" && pwd)"
BIN="$HERE/sim/target/release/cslsim"
export VERIF_DIR="$HERE"
IDS="C03 C04 C05 C06 C07 C08 C09 C10 C13 C16 C18 C19 C20"
case "${1:-}" in
  determinism)
    RUNS="${2:-2000}"
    rc=0
    for id in $IDS; do
      for seed in 1 7; do
        a=$(VERIF_SEED=$seed "$BIN" run $id quick --runs $RUNS --workers 1 --digest-only | grep -E "^(DIGEST|COUNTER)" | sort)
        b=$(VERIF_SEED=$seed "$BIN" run $id quick --runs $RUNS --workers 16 --digest-only | grep -E "^(DIGEST|COUNTER)" | sort)
        c=$(VERIF_SEED=$seed "$BIN" run $id quick --runs $RUNS --workers 5 --digest-only | grep -E "^(DIGEST|COUNTER)" | sort)
        if [ "$a" == "$b" ] && [ "$a" == "$c" ] && [ -n "$a" ]; then
          echo "determinism $id seed=$seed runs=$RUNS: identical ($(echo "$a" | grep DIGEST))"
        else
          echo "determinism $id seed=$seed: DIVERGENCE between worker counts / processes"
          diff <(echo "$a") <(echo "$b") | head -5
          rc=2
        fi
      done
    done
    exit $rc ;;
  replays)
    rc=0
    for f in "$HERE"/regress/*/*.json; do
      out=$("$BIN" replay "$f" 2>&1 | tail -1)
      case "$out" in
        *"did not reproduce"*) echo "ok (stays repaired): $f" ;;
        *) echo "REPRODUCES: $f :: $out"; rc=1 ;;
      esac
    done
    exit $rc ;;
  *) echo "usage: $0 determinism [runs] | replays"; exit 2 ;;
esac

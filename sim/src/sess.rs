//! Shared machinery of the builder-session properties: pinning, shrinking and generation helpers
//! for `Scenario`.
use crate::ctl::{RngPlan, Sampler, SAMPLERS};
use crate::exec;
use crate::prng::Rng;
use crate::scn::*;
use crate::world::*;

/// Record the RNG answers actually given so that the case replays without the sampler.
pub fn pin(sc: &Scenario) -> Scenario {
    if sc.rng.forced.is_some() {
        // keep the forced trace but normalise it to what was really consumed
        let h = exec::run(sc);
        let mut s = sc.clone();
        s.rng.forced = Some(h.draws);
        return s;
    }
    let h = exec::run(sc);
    let mut s = sc.clone();
    s.rng.forced = Some(h.draws);
    s
}

pub fn size(sc: &Scenario) -> usize {
    let offered: usize = sc
        .ops
        .iter()
        .map(|o| match o {
            Op::Select(_, ids) | Op::SelectAndChange(_, ids, _) | Op::SelectChangeCollateral(_, ids, _, _) => ids.len(),
            _ => 0,
        })
        .sum();
    sc.ops.len() * 4 + offered + sc.rng.forced.as_ref().map_or(0, |f| f.iter().filter(|x| x.1 != 0).count())
}

fn offered_mut(op: &mut Op) -> Option<&mut Vec<usize>> {
    match op {
        Op::Select(_, ids) | Op::SelectAndChange(_, ids, _) | Op::SelectChangeCollateral(_, ids, _, _) => Some(ids),
        _ => None,
    }
}

/// One-step-smaller candidates, most aggressive first.
pub fn shrink_candidates(sc: &Scenario) -> Vec<Scenario> {
    let mut out = vec![];
    let n = sc.ops.len();
    // 1. drop chunks of operations
    let mut chunk = n / 2;
    while chunk >= 1 {
        let mut start = 0;
        while start < n {
            let end = (start + chunk).min(n);
            if end - start < n {
                let mut c = sc.clone();
                c.ops.drain(start..end);
                out.push(c);
            }
            start += chunk;
        }
        chunk /= 2;
    }
    // 2. drop chunks of offered UTxOs
    for (i, op) in sc.ops.iter().enumerate() {
        let ids = match op {
            Op::Select(_, ids) | Op::SelectAndChange(_, ids, _) | Op::SelectChangeCollateral(_, ids, _, _) => ids,
            _ => continue,
        };
        let m = ids.len();
        let mut chunk = m / 2;
        while chunk >= 1 {
            let mut start = 0;
            while start < m {
                let end = (start + chunk).min(m);
                let mut c = sc.clone();
                if let Some(v) = offered_mut(&mut c.ops[i]) {
                    v.drain(start..end);
                }
                out.push(c);
                start += chunk;
            }
            chunk /= 2;
        }
    }
    // 3. simplify the RNG answers
    if let Some(f) = &sc.rng.forced {
        if !f.is_empty() {
            let mut c = sc.clone();
            c.rng.forced = Some(f[..f.len() / 2].to_vec());
            out.push(c);
            let mut c = sc.clone();
            c.rng.forced = Some(f.iter().map(|x| (x.0, 0)).collect());
            out.push(c);
        }
        for i in 0..f.len() {
            if f[i].1 != 0 {
                let mut c = sc.clone();
                c.rng.forced.as_mut().unwrap()[i].1 = 0;
                out.push(c);
                if f[i].1 > 1 {
                    let mut c = sc.clone();
                    c.rng.forced.as_mut().unwrap()[i].1 = f[i].1 / 2;
                    out.push(c);
                }
            }
        }
    }
    // 4. simplify world entries that are referenced: drop assets, datum, script ref of UTxOs
    for (i, u) in sc.world.utxos.iter().enumerate() {
        if !u.assets.is_empty() {
            let mut c = sc.clone();
            c.world.utxos[i].assets.clear();
            out.push(c);
            if u.assets.len() > 1 {
                let mut c = sc.clone();
                c.world.utxos[i].assets.truncate(u.assets.len() / 2);
                out.push(c);
            }
        }
    }
    // 5. simplify outputs
    for (i, op) in sc.ops.iter().enumerate() {
        if let Op::Out(o) = op {
            if !o.assets.is_empty() {
                let mut c = sc.clone();
                if let Op::Out(o2) = &mut c.ops[i] {
                    o2.assets.clear();
                }
                out.push(c);
            }
            if o.datum.is_some() || o.script_ref.is_some() {
                let mut c = sc.clone();
                if let Op::Out(o2) = &mut c.ops[i] {
                    o2.datum = None;
                    o2.script_ref = None;
                }
                out.push(c);
            }
        }
    }
    // 6. hash seed and knobs to defaults
    if sc.hash_seed > 3 {
        for s in 0..4 {
            let mut c = sc.clone();
            c.hash_seed = s;
            out.push(c);
        }
    }
    let d = Knobs::default();
    macro_rules! knob {
        ($f:ident) => {
            if sc.knobs.$f != d.$f {
                let mut c = sc.clone();
                c.knobs.$f = d.$f.clone();
                out.push(c);
            }
        };
    }
    knob!(fee_a);
    knob!(fee_b);
    knob!(cpb);
    knob!(max_value_size);
    knob!(max_tx_size);
    knob!(key_deposit);
    knob!(pool_deposit);
    knob!(ex_prices);
    knob!(ref_script_price);
    knob!(prefer_pure_change);
    knob!(dedup_ref_inputs);
    knob!(do_not_burn);
    out
}

/// Drop world entries no operation refers to and renumber (readability of replay files only).
pub fn compact(sc: &Scenario) -> Scenario {
    use std::collections::BTreeMap;
    let mut used: Vec<bool> = vec![false; sc.world.utxos.len()];
    fn mark_wit(w: &Wit, used: &mut Vec<bool>) {
        if let ScriptUse::Ref(u) = &w.how {
            if *u < used.len() {
                used[*u] = true;
            }
        }
        if let DatumUse::Ref(u) = &w.datum {
            if *u < used.len() {
                used[*u] = true;
            }
        }
    }
    for op in &sc.ops {
        match op {
            Op::InUtxo(u) | Op::InLegacy(u) | Op::InDirect(u) | Op::CollUtxo(u) | Op::RefIn(u, _) => {
                if *u < used.len() {
                    used[*u] = true
                }
            }
            Op::InScript { utxo, wit, .. } | Op::InScriptThenRegular { utxo, wit, .. } => {
                if *utxo < used.len() {
                    used[*utxo] = true
                }
                mark_wit(wit, &mut used);
            }
            Op::Select(_, ids) | Op::SelectAndChange(_, ids, _) | Op::SelectChangeCollateral(_, ids, _, _) => {
                for u in ids {
                    if *u < used.len() {
                        used[*u] = true
                    }
                }
            }
            Op::Cert(_, Some(w)) | Op::Wdr(_, _, Some(w)) | Op::Propose(_, Some(w)) => mark_wit(w, &mut used),
            Op::Mint { wit, .. } => mark_wit(wit, &mut used),
            Op::Vote { wit: Some(w), .. } => mark_wit(w, &mut used),
            _ => {}
        }
    }
    let mut map: BTreeMap<usize, usize> = BTreeMap::new();
    let mut c = sc.clone();
    c.world.utxos.clear();
    for (i, u) in sc.world.utxos.iter().enumerate() {
        if used[i] {
            map.insert(i, c.world.utxos.len());
            c.world.utxos.push(u.clone());
        }
    }
    let m = |u: &mut usize| {
        if let Some(n) = map.get(u) {
            *u = *n
        }
    };
    fn map_wit(w: &mut Wit, m: &dyn Fn(&mut usize)) {
        if let ScriptUse::Ref(u) = &mut w.how {
            m(u)
        }
        if let DatumUse::Ref(u) = &mut w.datum {
            m(u)
        }
    }
    for op in c.ops.iter_mut() {
        match op {
            Op::InUtxo(u) | Op::InLegacy(u) | Op::InDirect(u) | Op::CollUtxo(u) | Op::RefIn(u, _) => m(u),
            Op::InScript { utxo, wit, .. } | Op::InScriptThenRegular { utxo, wit, .. } => {
                m(utxo);
                map_wit(wit, &m);
            }
            Op::Select(_, ids) | Op::SelectAndChange(_, ids, _) | Op::SelectChangeCollateral(_, ids, _, _) => ids.iter_mut().for_each(|u| m(u)),
            Op::Cert(_, Some(w)) | Op::Wdr(_, _, Some(w)) | Op::Propose(_, Some(w)) => map_wit(w, &m),
            Op::Mint { wit, .. } => map_wit(wit, &m),
            Op::Vote { wit: Some(w), .. } => map_wit(w, &m),
            _ => {}
        }
    }
    c
}

// ------------------------------------------------------------------ generation helpers

pub fn gen_rng_plan(r: &mut Rng) -> RngPlan {
    let sampler = if r.chance(1, 3) { Sampler::Uniform } else { *r.pick(&SAMPLERS) };
    RngPlan { sampler, seed: r.next(), forced: None }
}

/// CBOR width-class boundaries for amounts
pub const WIDTH_EDGES: [u64; 12] = [0, 23, 24, 255, 256, 65535, 65536, 4294967295, 4294967296, 1 << 40, 1 << 50, (1 << 63) - 1];

pub fn gen_knobs(r: &mut Rng, vary: bool) -> Knobs {
    let mut k = Knobs::default();
    if !vary {
        return k;
    }
    if r.chance(1, 2) {
        k.fee_a = *r.pick(&[0u64, 1, 44, 44, 100, 500, 1000]);
        k.fee_b = *r.pick(&[0u64, 1000, 155381, 155381, 1_000_000, 65535, 65536]);
    }
    if r.chance(1, 2) {
        k.cpb = *r.pick(&[1u64, 100, 1000, 4310, 4310, 34482 / 8, 10000]);
    }
    if r.chance(1, 3) {
        k.max_value_size = *r.pick(&[200u32, 300, 500, 1000, 5000]);
    }
    if r.chance(1, 4) {
        k.max_tx_size = *r.pick(&[1024u32, 2048, 4096, 16384, 16384]);
    }
    if r.chance(1, 4) {
        k.key_deposit = *r.pick(&[0u64, 1, 400_000, 2_000_000, 65536]);
        k.pool_deposit = *r.pick(&[0u64, 500_000_000, 1_000_000]);
    }
    k.prefer_pure_change = r.chance(1, 3);
    k.dedup_ref_inputs = r.chance(1, 2);
    k.do_not_burn = r.chance(1, 5);
    if r.chance(1, 6) {
        k.ex_prices = Some((*r.pick(&[0u64, 577, 1]), *r.pick(&[10000u64, 1, 3]), *r.pick(&[0u64, 721, 1]), *r.pick(&[10_000_000u64, 7, 1])));
    }
    if r.chance(1, 6) {
        k.ref_script_price = Some((*r.pick(&[0u64, 15, 1, 44]), *r.pick(&[1u64, 1, 2, 7])));
    }
    k
}

/// a key-owned address of a random Shelley kind (or Byron)
pub fn gen_key_addr(r: &mut Rng, nkeys: u16, byron_pm: u64) -> AddrSpec {
    let k = r.below(nkeys as u64) as u16;
    if r.below(1000) < byron_pm {
        // one Byron owner in four is of the Daedalus kind (derivation path in the attributes)
        return if r.chance(1, 4) { AddrSpec::ByronPath(k % 16, *r.pick(&[28u8, 40])) } else { AddrSpec::Byron(k) };
    }
    match r.below(10) {
        0..=5 => AddrSpec::Base(Cred::Key(k), Cred::Key(r.below(nkeys as u64) as u16)),
        6..=8 => AddrSpec::Ent(Cred::Key(k)),
        _ => AddrSpec::Ptr(Cred::Key(k), r.range(0, 1 << 20), r.range(0, 300), r.range(0, 10)),
    }
}

pub fn gen_asset_name(r: &mut Rng) -> Vec<u8> {
    let len = *r.pick(&[0usize, 1, 4, 8, 8, 16, 31, 32]);
    let f = r.below(4) as u8;
    (0..len).map(|i| b'a' + ((i as u8 + f) % 26)).collect()
}

/// rough minimum ADA for an output of about `bytes` serialized bytes
pub fn approx_min_ada(k: &Knobs, bytes: u64) -> u64 {
    k.cpb * (160 + bytes)
}

//! C04 — original bytes and the hashes derived from them are preserved.
//! A small multi-party system: an originator, up to 5 signer nodes, a collector. Messages are
//! transaction bytes/hex; deliveries are reordered (F7) and duplicated (F6), nodes restart between
//! load and sign (F5), and the artefact may arrive in a foreign peer's encoding (F8).
use crate::cbor::{self, Foreign, Kind, Node};
use crate::ctl::{RngPlan, Sampler, Sim};
use crate::exec;
use crate::oracle::TxView;
use crate::prng::{mix, Rng};
use crate::runner::{Outcome, Prop, Tier};
use crate::scn::Scenario;
use crate::sess;
use crate::wallet::{self, Profile};
use crate::world::*;
use cardano_serialization_lib as csl;
use serde::{Deserialize, Serialize};
use std::collections::BTreeSet;

#[derive(Serialize, Deserialize, Clone, Debug, PartialEq)]
pub enum SOp {
    /// node loads the original artefact (bytes or hex)
    LoadOriginal { node: u8, hex: bool },
    /// node builds its byte-preserving copy from the three raw parts of the original (hardware-signer style)
    LoadFromParts { node: u8 },
    /// node loads what another node currently serializes (a forwarded message)
    Forward {
        from: u8,
        to: u8,
        hex: bool,
        /// a foreign relay re-encodes the message on the way (seed of its encoding choices)
        #[serde(default)]
        relay: Option<u64>,
    },
    SignVkey { node: u8, key: u8, via_helper: bool },
    SignIcarus { node: u8, key: u8, via_helper: bool },
    SignDaedalus { node: u8, key: u8 },
    Restart { node: u8, hex: bool },
    /// node hands its copy the witness set / body / auxiliary data it already holds again, through the raw
    /// setters (what a signing device does that keeps the three parts separately): 0 = witness set, 1 = body,
    /// 2 = auxiliary data, 3 = the auxiliary data in another producer's encoding (same content, other
    /// bytes: from then on *those* are the node's auxiliary bytes), 4 = a body the setter must refuse
    /// (the whole transaction handed over by mistake, F4: nothing may change)
    SetPartAgain { node: u8, part: u8 },
    /// collector `to` takes every key/bootstrap witness of `from` one by one
    Merge { from: u8, to: u8 },
    /// node builds its byte-preserving copy from the body bytes alone (`new_from_body_bytes`: a signer that is
    /// sent only what it has to sign); it holds no witnesses and no auxiliary data, the body and its hash are the original's
    LoadFromBody { node: u8 },
    /// node `to` receives an in-memory copy (clone) of the object node `from` holds - a wallet that keeps
    /// what it loaded while a signing component works on a copy. From then on the two are separate parties
    HandCopy { from: u8, to: u8 },
}

#[derive(Serialize, Deserialize, Clone, Debug)]
pub struct Case {
    /// the session that produces the transaction
    pub session: Scenario,
    /// foreign re-encoding: per-mille probabilities (wide heads, indefinite, chunked, permuted maps, untagged sets); 0s = as the library wrote it
    pub foreign: Option<(u64, u64, u64, u64, u64, u64)>,
    pub ops: Vec<SOp>,
    pub hash_seed: u64,
    /// the originator hands out a transaction that already carries the wallet's own signatures
    #[serde(default)]
    pub presigned: bool,
    /// the artefact travels in the pre-Alonzo shape `[body, witness set, auxiliary data / null]` (no validity flag)
    #[serde(default)]
    pub legacy_shape: bool,
    /// the producer writes witness fields it has nothing for as empty lists: bit 0 = key witnesses
    /// (`0: []`, the usual look of an unsigned transaction from some tools), bit 1 = bootstrap witnesses,
    /// bit 2 = native scripts
    #[serde(default)]
    pub empty_fields: u8,
}

pub struct C04;

const NODES: u8 = 5;

fn profile_c04() -> Profile {
    let mut p = Profile::base("c04");
    p.plutus = 450;
    p.extra_datums = 350;
    p.out_features = 400;
    p.metadata = 350;
    p.native_inputs = 250;
    p.byron = 200;
    p.mint = 300;
    p.certs = 300;
    p.votes = 120;
    p.proposals = 120;
    p.tight = 50;
    p
}

/// re-emit `n` as a foreign peer would; sets may lose their tag
fn foreign_emit(n: &Node, f: &mut Foreign, p_untag: u64, out: &mut Vec<u8>, stats_untag: &mut u32) {
    // only the set tag needs special handling; everything else goes through Foreign::emit on sub-nodes
    match &n.kind {
        Kind::Tag(258, inner) if f.rng.below(1000) < p_untag => {
            *stats_untag += 1;
            foreign_emit(inner, f, p_untag, out, stats_untag);
        }
        Kind::Tag(24, _) => {
            // embedded CBOR (inline datum, script reference): the byte string content is data, keep it
            f.emit(n, out)
        }
        Kind::Tag(t, inner) => {
            cbor::head(out, 6, *t);
            foreign_emit(inner, f, p_untag, out, stats_untag);
        }
        Kind::Array(items) => {
            let indef = f.rng.below(1000) < f.p_indef;
            if indef {
                f.stats.indef_containers += 1;
                out.push(0x9f);
            } else {
                let w = if f.rng.below(1000) < f.p_wide {
                    f.stats.wide_heads += 1;
                    *f.rng.pick(&[1u8, 2, 4, 8])
                } else {
                    0
                };
                cbor::head_w(out, 4, items.len() as u64, w);
            }
            for i in items {
                foreign_emit(i, f, p_untag, out, stats_untag);
            }
            if indef {
                out.push(0xff);
            }
        }
        Kind::Map(items) => {
            let mut order: Vec<usize> = (0..items.len()).collect();
            if items.len() > 1 && f.rng.below(1000) < f.p_perm {
                f.stats.permuted_maps += 1;
                f.rng.shuffle(&mut order);
            }
            let indef = f.rng.below(1000) < f.p_indef;
            if indef {
                f.stats.indef_containers += 1;
                out.push(0xbf);
            } else {
                cbor::head(out, 5, items.len() as u64);
            }
            for i in order {
                foreign_emit(&items[i].0, f, p_untag, out, stats_untag);
                foreign_emit(&items[i].1, f, p_untag, out, stats_untag);
            }
            if indef {
                out.push(0xff);
            }
        }
        _ => f.emit(n, out),
    }
}

fn gen(seed: u64, tier: Tier) -> Case {
    let session = wallet::generate(seed, tier, &profile_c04());
    let mut r = Rng::stream(seed, 11);
    let foreign = if r.chance(1, 3) {
        None
    } else {
        let lvl = *r.pick(&[20u64, 100, 300]);
        Some((r.below(lvl + 1), r.below(lvl + 1), r.below(lvl + 1), r.below(lvl + 1), r.below(2 * lvl + 1), r.next()))
    };
    let n = 2 + r.below(if tier == Tier::Thorough { 20 } else { 10 }) + if r.chance(1, 8) { 12 } else { 0 };
    let mut ops = vec![SOp::LoadOriginal { node: 0, hex: r.chance(1, 2) }];
    for _ in 0..n {
        let node = r.below(NODES as u64) as u8;
        // (now and then a wider circle of co-signers: collections that change their ways beyond a handful of elements)
        let circle = if r.chance(1, 3) { 14 } else { 6 };
        let key = r.below(circle) as u8;
        ops.push(match r.below(15) {
            0 => SOp::LoadOriginal { node, hex: r.chance(1, 2) },
            1 => {
                if r.chance(1, 4) {
                    SOp::LoadFromBody { node }
                } else if r.chance(1, 2) {
                    SOp::LoadFromParts { node }
                } else {
                    SOp::LoadOriginal { node, hex: r.chance(1, 2) }
                }
            }
            2 | 3 => SOp::Forward { from: r.below(NODES as u64) as u8, to: node, hex: r.chance(1, 2), relay: if r.chance(1, 3) { Some(r.next()) } else { None } },
            4..=7 => SOp::SignVkey { node, key, via_helper: r.chance(1, 2) },
            8 | 9 => SOp::SignIcarus { node, key, via_helper: r.chance(1, 2) },
            10 => SOp::SignDaedalus { node, key },
            11 => {
                if r.chance(1, 2) {
                    SOp::Restart { node, hex: r.chance(1, 2) }
                } else {
                    SOp::SetPartAgain { node, part: r.below(5) as u8 }
                }
            }
            12 => SOp::Merge { from: r.below(NODES as u64) as u8, to: node },
            _ => {
                if r.chance(1, 2) {
                    SOp::HandCopy { from: r.below(NODES as u64) as u8, to: node }
                } else {
                    SOp::Merge { from: r.below(NODES as u64) as u8, to: node }
                }
            }
        });
    }
    Case { session, foreign, ops, hash_seed: r.next(), presigned: r.chance(1, 2), legacy_shape: r.chance(1, 6), empty_fields: if r.chance(1, 4) { 1 + r.below(7) as u8 } else { 0 } }
}

#[derive(Clone)]
struct Facts {
    body: Vec<u8>,
    hash: [u8; 32],
    aux: Option<Vec<u8>>,
    is_valid: bool,
    /// witness-set fields as (key, bytes of the value) in original order
    ws_fields: Vec<(u64, Vec<u8>)>,
    vkeys: BTreeSet<(Vec<u8>, Vec<u8>)>,
    boots: BTreeSet<Vec<u8>>,
}

fn vkey_pairs(v: &TxView, key: u64) -> Option<Vec<(Vec<u8>, Vec<u8>)>> {
    let mut out = vec![];
    if let Some(n) = v.ws().get(key) {
        for it in n.set_items()? {
            let a = it.as_array()?;
            out.push((a.get(0)?.as_bytes()?.to_vec(), a.get(1)?.as_bytes()?.to_vec()));
        }
    }
    Some(out)
}

/// canonical re-emission of a bootstrap witness (to compare semantically)
fn boot_items(v: &TxView) -> Option<Vec<Vec<u8>>> {
    let mut out = vec![];
    if let Some(n) = v.ws().get(2) {
        for it in n.set_items()? {
            let mut b = vec![];
            cbor::emit_plain(it, &mut b);
            out.push(b);
        }
    }
    Some(out)
}

/// `[body, ws, aux]` (pre-Alonzo shape) read as `[body, ws, true, aux]`: the spans are the same bytes
fn with_validity_flag(bytes: &[u8]) -> Option<Vec<u8>> {
    let root = cbor::parse(bytes).ok()?;
    let a = root.as_array()?;
    if a.len() != 3 {
        return None;
    }
    let mut b = vec![0x84];
    b.extend_from_slice(&bytes[a[0].start..a[1].end]);
    b.push(0xf5);
    b.extend_from_slice(&bytes[a[2].start..a[2].end]);
    Some(b)
}

/// the same transaction with `0: []` / `2: []` added to the witness-set map where those keys are absent
fn with_empty_witness_fields(bytes: &[u8], which: u8, out: &mut Outcome) -> Vec<u8> {
    let v = match TxView::parse(bytes) {
        Ok(v) => v,
        Err(_) => return bytes.to_vec(),
    };
    let ws = v.ws();
    let entries = match ws.as_map() {
        Some(m) => m,
        None => return bytes.to_vec(),
    };
    // only the plain form the library itself writes (definite map, one-byte head)
    if bytes[ws.start] < 0xa0 || bytes[ws.start] > 0xb5 || bytes[0] != 0x84 {
        return bytes.to_vec();
    }
    let mut add: Vec<u64> = vec![];
    for (bit, key) in [(1u8, 0u64), (2, 2), (4, 1)] {
        if which & bit != 0 && !entries.iter().any(|(k, _)| k.as_u64() == Some(key)) {
            add.push(key);
        }
    }
    if add.is_empty() {
        return bytes.to_vec();
    }
    let mut b = bytes[..ws.start].to_vec();
    cbor::w_map(&mut b, (entries.len() + add.len()) as u64);
    // keys in ascending order, existing entries verbatim
    let mut keys: Vec<u64> = entries.iter().filter_map(|(k, _)| k.as_u64()).chain(add.iter().cloned()).collect();
    keys.sort();
    for k in keys {
        if let Some((kn, vn)) = entries.iter().find(|(kk, _)| kk.as_u64() == Some(k)) {
            b.extend_from_slice(&bytes[kn.start..vn.end]);
        } else {
            cbor::w_uint(&mut b, k);
            cbor::w_tag(&mut b, 258);
            cbor::w_array(&mut b, 0);
            out.count("fault.F8_empty_witness_field_present", 1);
        }
    }
    b.extend_from_slice(&bytes[ws.end..]);
    b
}

fn facts(bytes: &[u8]) -> Option<Facts> {
    let four = with_validity_flag(bytes);
    let bytes = four.as_deref().unwrap_or(bytes);
    let v = TxView::parse(bytes).ok()?;
    let body = v.span(v.body()).to_vec();
    let hash = blake2b256(&body);
    let aux = if v.aux().is_null() { None } else { Some(v.span(v.aux()).to_vec()) };
    let is_valid = v.root.idx(2)?.as_bool()?;
    let mut ws_fields = vec![];
    for (k, val) in v.ws().as_map()? {
        ws_fields.push((k.as_u64()?, v.span(val).to_vec()));
    }
    let vkeys = vkey_pairs(&v, 0)?.into_iter().collect();
    let boots = boot_items(&v)?.into_iter().collect();
    Some(Facts { body, hash, aux, is_valid, ws_fields, vkeys, boots })
}

struct NodeState {
    tx: csl::FixedTransaction,
    /// witness-set facts of the message this node loaded: what "untouched" refers to at this node
    base: Facts,
    /// witnesses this node's copy is expected to hold beyond the original ones
    added_vkeys: BTreeSet<(Vec<u8>, Vec<u8>)>,
    added_boots: BTreeSet<Vec<u8>>,
    /// auxiliary bytes the node itself put in place of the original ones (set_auxiliary_data)
    aux_override: Option<Vec<u8>>,
    /// the node (or the node it got its message from) started from the body bytes alone: no auxiliary data, valid
    body_only: bool,
}

fn plain(b: &[u8]) -> Vec<u8> {
    match cbor::parse(b) {
        Ok(n) => {
            let mut o = vec![];
            cbor::emit_plain(&n, &mut o);
            o
        }
        Err(_) => b.to_vec(),
    }
}

fn check_node(step: usize, id: u8, ns: &NodeState, f: &Facts, out: &mut Outcome) {
    out.count("c04.node_states_checked", 1);
    if ns.tx.raw_body() != f.body {
        out.violate("C04.body_bytes", "raw_body_differs_from_original", format!("step {} node {}: raw_body() is not the original body span", step, id));
    }
    if ns.tx.transaction_hash().to_bytes() != f.hash.to_vec() {
        out.violate("C04.tx_hash", "hash_is_not_blake2b_of_original_body", format!("step {} node {}: transaction_hash() != blake2b256(original body bytes)", step, id));
    }
    let aux_expected: Option<Vec<u8>> = ns.aux_override.clone().or_else(|| if ns.body_only { None } else { f.aux.clone() });
    if ns.tx.raw_auxiliary_data() != aux_expected {
        if std::env::var("C04_DEBUG").is_ok() {
            eprintln!("original aux: {}\nreturned aux: {}", f.aux.as_ref().map(hex::encode).unwrap_or_default(), ns.tx.raw_auxiliary_data().map(hex::encode).unwrap_or_default());
        }
        out.violate("C04.aux_bytes", "raw_auxiliary_data_differs", format!("step {} node {}: raw_auxiliary_data() differs from the original span", step, id));
    }
    if ns.tx.is_valid() != (f.is_valid || ns.body_only) {
        out.violate("C04.is_valid", "is_valid_changed", format!("step {} node {}", step, id));
    }
    let bytes = ns.tx.to_bytes();
    let v = match TxView::parse(&bytes) {
        Ok(v) => v,
        Err(e) => {
            if std::env::var("C04_DEBUG").is_ok() {
                eprintln!("reserialized: {}", hex::encode(&bytes));
            }
            out.violate("C04.reserialize", "reserialized_bytes_unreadable", format!("step {} node {}: {}", step, id, e));
            return;
        }
    };
    // the accessor of the witness-set bytes hands out what the transaction itself is serialized with
    if ns.tx.raw_witness_set() != v.span(v.ws()) {
        out.violate("C04.untouched_fields", "raw_witness_set_differs_from_serialized_witness_set", format!("step {} node {}: raw_witness_set() is not the witness set of to_bytes()", step, id));
    }
    if v.span(v.body()) != &f.body[..] {
        out.violate("C04.body_bytes", "serialized_body_differs_from_original", format!("step {} node {}: body bytes in to_bytes() differ from the original", step, id));
    }
    match (&aux_expected, v.aux().is_null()) {
        (None, true) => {}
        (Some(a), false) if v.span(v.aux()) == &a[..] => {}
        _ => out.violate("C04.aux_bytes", "serialized_aux_differs_from_original", format!("step {} node {}: auxiliary data bytes in to_bytes() differ from the original", step, id)),
    }
    // untouched witness-set fields byte for byte
    let touched_v = !ns.added_vkeys.is_empty();
    let touched_b = !ns.added_boots.is_empty();
    let ws = v.ws();
    // witness-set fields are compared with the message this node loaded
    let f = &ns.base;
    for (k, orig) in &f.ws_fields {
        if (*k == 0 && touched_v) || (*k == 2 && touched_b) {
            continue;
        }
        match ws.get(*k) {
            Some(n) if v.span(n) == &orig[..] => {}
            Some(_) => out.violate("C04.untouched_fields", &format!("untouched_witness_field_{}_changed", k), format!("step {} node {}: witness field {} was not touched but its bytes changed", step, id, k)),
            None => out.violate("C04.untouched_fields", &format!("untouched_witness_field_{}_lost", k), format!("step {} node {}: witness field {} disappeared", step, id, k)),
        }
    }
    if let Some(m) = ws.as_map() {
        for (k, _) in m {
            if let Some(k) = k.as_u64() {
                let known = f.ws_fields.iter().any(|(x, _)| *x == k);
                if !known && !((k == 0 && touched_v) || (k == 2 && touched_b)) {
                    out.violate("C04.untouched_fields", "witness_field_invented", format!("step {} node {}: witness field {} appeared", step, id, k));
                }
            }
        }
    }
    // touched fields: original + added, each once; all signatures verify over the original hash
    if let Some(pairs) = vkey_pairs(&v, 0) {
        let set: BTreeSet<(Vec<u8>, Vec<u8>)> = pairs.iter().cloned().collect();
        if set.len() != pairs.len() {
            out.violate("C04.touched_field", "vkey_witness_twice", format!("step {} node {}: a key witness is serialized twice", step, id));
        }
        let mut want = f.vkeys.clone();
        want.extend(ns.added_vkeys.iter().cloned());
        if set != want {
            out.violate("C04.touched_field", "vkey_witnesses_not_original_plus_added", format!("step {} node {}: {} key witnesses serialized, expected {} (original {} + added {})", step, id, set.len(), want.len(), f.vkeys.len(), ns.added_vkeys.len()));
        }
        for (pk, sig) in &ns.added_vkeys {
            if pk.len() == 32 && sig.len() == 64 {
                let mut p = [0u8; 32];
                p.copy_from_slice(pk);
                let mut s = [0u8; 64];
                s.copy_from_slice(sig);
                if !cryptoxide::ed25519::verify(&f.hash, &p, &s) {
                    out.violate("C04.signature", "added_signature_does_not_verify_over_original_hash", format!("step {} node {}", step, id));
                }
            }
        }
    }
    if let Some(items) = boot_items(&v) {
        let set: BTreeSet<Vec<u8>> = items.iter().cloned().collect();
        if set.len() != items.len() {
            out.violate("C04.touched_field", "bootstrap_witness_twice", format!("step {} node {}: a bootstrap witness is serialized twice", step, id));
        }
        let mut want = f.boots.clone();
        want.extend(ns.added_boots.iter().cloned());
        if set != want {
            out.violate("C04.touched_field", "bootstrap_witnesses_not_original_plus_added", format!("step {} node {}: {} bootstrap witnesses serialized, expected {}", step, id, set.len(), want.len()));
        }
    }
}

/// every datum span of the artefact survives PlutusData::from_bytes / to_bytes
fn datum_relay(bytes: &[u8], out: &mut Outcome) {
    let v = match TxView::parse(bytes) {
        Ok(v) => v,
        Err(_) => return,
    };
    let mut spans: Vec<(usize, usize)> = vec![];
    if let Some(items) = v.ws().get(4).and_then(|n| n.set_items()) {
        for it in items {
            spans.push((it.start, it.end));
        }
    }
    if let Ok(outs) = v.outputs() {
        for o in outs {
            if let Some(s) = o.inline_datum {
                spans.push(s);
            }
        }
    }
    for (a, b) in spans {
        let span = &bytes[a..b];
        out.count("c04.datum_spans_relayed", 1);
        match csl::PlutusData::from_bytes(span.to_vec()) {
            Ok(d) => {
                if d.to_bytes() != span {
                    out.violate("C04.datum_bytes", "datum_reencodes_differently", format!("datum {} re-encodes to {}", hex::encode(&span[..span.len().min(24)]), hex::encode(&d.to_bytes()[..d.to_bytes().len().min(24)])));
                }
                if csl::hash_plutus_data(&d).to_bytes() != blake2b256(span).to_vec() {
                    out.violate("C04.datum_hash", "datum_hash_changed", format!("datum {}: hash_plutus_data != blake2b256(span)", hex::encode(&span[..span.len().min(24)])));
                }
            }
            Err(_) => out.count("c04.datum_encoding_rejected", 1),
        }
    }
}

fn execute(c: &Case) -> Outcome {
    let mut out = Outcome::default();
    // 1. the originator builds the transaction
    let h = exec::run(&c.session);
    out.steps = h.steps;
    out.digest = h.digest;
    let lib_bytes = match h.built.iter().find(|b| b.full) {
        Some(b) => {
            let mut bytes = b.bytes.clone();
            if c.presigned {
                // the wallet signs before it hands the transaction to the co-signers
                if let Ok(sg) = wallet::sign(&c.session, &h, b) {
                    out.count("c04.presigned_originals", 1);
                    bytes = sg.bytes;
                }
            }
            bytes
        }
        None => {
            out.count("c04.no_transaction_built", 1);
            return out;
        }
    };
    let plan = RngPlan { sampler: Sampler::Uniform, seed: 0, forced: None };
    let sim = Sim::install(&plan, c.hash_seed);
    let lib_bytes = if c.empty_fields != 0 { with_empty_witness_fields(&lib_bytes, c.empty_fields, &mut out) } else { lib_bytes };
    // 2. optionally a foreign peer re-encodes it
    let mut original = lib_bytes.clone();
    if let Some((pw, pi, pc, pp, pu, seed)) = c.foreign {
        if let (Ok(n), Ok(v)) = (cbor::parse(&lib_bytes), TxView::parse(&lib_bytes)) {
            let mut r = Rng::new(seed);
            let mut f = Foreign::new(&mut r, pw, pi, pc, pp);
            let mut b = vec![];
            let mut untag = 0u32;
            if c.presigned {
                // signatures were made over the body as the wallet wrote it: the peer may only
                // re-serialize the witness set, body and auxiliary data travel verbatim
                b.push(0x84);
                b.extend_from_slice(v.span(v.body()));
                foreign_emit(v.ws(), &mut f, pu, &mut b, &mut untag);
                b.extend_from_slice(&lib_bytes[v.ws().end..]);
            } else {
                foreign_emit(&n, &mut f, pu, &mut b, &mut untag);
            }
            let st = f.stats.clone();
            out.count("fault.F8_wide_heads", st.wide_heads as u64);
            out.count("fault.F8_indefinite_containers", st.indef_containers as u64);
            out.count("fault.F8_chunked_strings", st.chunked_strings as u64);
            out.count("fault.F8_permuted_maps", st.permuted_maps as u64);
            out.count("fault.F8_untagged_sets", untag as u64);
            if b != lib_bytes {
                out.count("fault.F8_foreign_encoded_artefacts", 1);
            }
            original = b;
        }
    }
    if c.legacy_shape {
        // an older producer: no validity flag (definite 3-element array around the same spans)
        if let Ok(v) = TxView::parse(&original) {
            if v.root.idx(2).and_then(|x| x.as_bool()) == Some(true) && !original.is_empty() && original[0] == 0x84 {
                let mut b = vec![0x83];
                b.extend_from_slice(&original[v.body().start..v.ws().end]);
                b.extend_from_slice(v.span(v.aux()));
                original = b;
                out.count("fault.F8_pre_alonzo_transaction_shape", 1);
            }
        }
    }
    if std::env::var("C04_DEBUG").is_ok() {
        eprintln!("original: {}", hex::encode(&original));
    }
    datum_relay(&original, &mut out);
    let f = match facts(&original) {
        Some(f) => f,
        None => {
            out.count("c04.harness_could_not_read_artefact", 1);
            drop(sim);
            return out;
        }
    };
    // 3. the network
    let mut nodes: Vec<Option<NodeState>> = (0..NODES).map(|_| None).collect();
    let load = |bytes: &[u8], hex_form: bool| -> Result<csl::FixedTransaction, String> {
        if hex_form {
            csl::FixedTransaction::from_hex(&hex::encode(bytes)).map_err(|e| format!("{:?}", e))
        } else {
            csl::FixedTransaction::from_bytes(bytes.to_vec()).map_err(|e| format!("{:?}", e))
        }
    };
    let magic = c.session.world.magic;
    let mut sig = mix(c.foreign.is_some() as u64, f.ws_fields.len() as u64);
    for (step, op) in c.ops.iter().enumerate() {
        out.steps += 1;
        match op {
            SOp::LoadOriginal { node, hex } => match exec::guard(|| load(&original, *hex).map_err(|e| csl::JsError::from_str(&e))) {
                Ok(tx) => {
                    if nodes[*node as usize].is_some() {
                        out.count("fault.F6_duplicate_delivery_of_original", 1);
                    }
                    nodes[*node as usize] = Some(NodeState { tx, base: f.clone(), added_vkeys: BTreeSet::new(), added_boots: BTreeSet::new(), aux_override: None, body_only: false });
                    out.nontrivial = true;
                }
                Err(exec::Res::Panic(p)) => {
                    out.count("panics_observed", 1);
                    let _ = p;
                }
                Err(_) => out.count("c04.artefact_rejected_by_decoder", 1),
            },
            SOp::LoadFromParts { node } => {
                let parts = TxView::parse(&original).ok().map(|v| (v.span(v.body()).to_vec(), v.span(v.ws()).to_vec(), if v.aux().is_null() { None } else { Some(v.span(v.aux()).to_vec()) }));
                if let Some((b, w, a)) = parts {
                    let r = exec::guard(|| match &a {
                        Some(a) => csl::FixedTransaction::new_with_auxiliary(&b, &w, a, f.is_valid),
                        None => csl::FixedTransaction::new(&b, &w, f.is_valid),
                    });
                    match r {
                        Ok(tx) => {
                            out.count("c04.loaded_from_parts", 1);
                            nodes[*node as usize] = Some(NodeState { tx, base: f.clone(), added_vkeys: BTreeSet::new(), added_boots: BTreeSet::new(), aux_override: None, body_only: false });
                            out.nontrivial = true;
                        }
                        Err(exec::Res::Panic(_)) => out.count("panics_observed", 1),
                        Err(_) => out.count("c04.artefact_rejected_by_decoder", 1),
                    }
                }
            }
            SOp::Forward { from, to, hex, relay } => {
                if let Some(src) = &nodes[*from as usize] {
                    let mut msg = src.tx.to_bytes();
                    out.count("fault.F7_forwarded_messages", 1);
                    let mut relayed = false;
                    if let (Some(seed), Some((pw, pi, pc, pp, pu, _))) = (relay, c.foreign) {
                        if let Ok(v) = TxView::parse(&msg) {
                            // the relay re-serializes the witness set only; body and auxiliary data travel verbatim
                            // (re-encoding the body would change the transaction, not test the library)
                            let mut r = Rng::new(*seed);
                            let mut fe = Foreign::new(&mut r, pw, pi, pc, pp);
                            let mut b = vec![0x84];
                            b.extend_from_slice(v.span(v.body()));
                            let mut untag = 0u32;
                            foreign_emit(v.ws(), &mut fe, pu, &mut b, &mut untag);
                            b.extend_from_slice(&msg[v.ws().end..]);
                            if b != msg && load(&b, false).is_ok() {
                                msg = b;
                                relayed = true;
                                out.count("fault.F8_relay_reencoded_message", 1);
                            }
                        }
                    }
                    match (load(&msg, *hex), facts(&msg)) {
                        (Ok(tx), Some(base)) => {
                            let aux_override = src.aux_override.clone();
                            let body_only = src.body_only;
                            nodes[*to as usize] = Some(NodeState { tx, base, added_vkeys: BTreeSet::new(), added_boots: BTreeSet::new(), aux_override, body_only })
                        }
                        (Err(e), _) if !relayed => out.violate("C04.reload", "own_serialization_rejected", format!("step {}: node {} cannot load what node {} serialized: {}", step, to, from, e)),
                        _ => {}
                    }
                }
            }
            SOp::SignVkey { node, key: k, via_helper } => {
                if let Some(ns) = nodes[*node as usize].as_mut() {
                    let km = key(*k as u16);
                    if *via_helper {
                        let _ = ns.tx.sign_and_add_vkey_signature(&km.sk);
                    } else {
                        let w = csl::make_vkey_witness(&ns.tx.transaction_hash(), &km.sk);
                        ns.tx.add_vkey_witness(&w);
                    }
                    // Ed25519 signatures are deterministic: the expected witness is known
                    let want = csl::make_vkey_witness(&csl::TransactionHash::from_bytes(f.hash.to_vec()).unwrap(), &km.sk);
                    let pair = (want.vkey().public_key().as_bytes(), want.signature().to_bytes());
                    let known = ns.base.vkeys.contains(&pair);
                    if !ns.added_vkeys.insert(pair) || known {
                        out.count("fault.F6_same_signer_signs_again", 1);
                    }
                    out.count("c04.signatures_added", 1);
                }
            }
            SOp::SignIcarus { node, key: k, via_helper } => {
                if let Some(ns) = nodes[*node as usize].as_mut() {
                    let bm = byron(*k as u16, magic);
                    if *via_helper {
                        let _ = ns.tx.sign_and_add_icarus_bootstrap_signature(&bm.addr, &bm.xprv);
                    } else {
                        let w = csl::make_icarus_bootstrap_witness(&ns.tx.transaction_hash(), &bm.addr, &bm.xprv);
                        ns.tx.add_bootstrap_witness(&w);
                    }
                    let want = csl::make_icarus_bootstrap_witness(&csl::TransactionHash::from_bytes(f.hash.to_vec()).unwrap(), &bm.addr, &bm.xprv);
                    let wb = plain(&want.to_bytes());
                    let known = ns.base.boots.contains(&wb);
                    if !ns.added_boots.insert(wb) || known {
                        out.count("fault.F6_same_signer_signs_again", 1);
                    }
                    out.count("c04.bootstrap_signatures_added", 1);
                }
            }
            SOp::SignDaedalus { node, key: k } => {
                if let Some(ns) = nodes[*node as usize].as_mut() {
                    let bm = byron(*k as u16, magic);
                    if let Ok(dk) = csl::LegacyDaedalusPrivateKey::from_bytes(&bm.xprv.as_bytes()) {
                        let _ = ns.tx.sign_and_add_daedalus_bootstrap_signature(&bm.addr, &dk);
                        let want = csl::make_daedalus_bootstrap_witness(&csl::TransactionHash::from_bytes(f.hash.to_vec()).unwrap(), &bm.addr, &dk);
                        let wb = plain(&want.to_bytes());
                        let known = ns.base.boots.contains(&wb);
                        if !ns.added_boots.insert(wb) || known {
                            out.count("fault.F6_same_signer_signs_again", 1);
                        }
                        out.count("c04.daedalus_signatures_added", 1);
                    }
                }
            }
            SOp::Restart { node, hex } => {
                if let Some(ns) = nodes[*node as usize].as_mut() {
                    out.count("fault.F5_restart_between_load_and_sign", 1);
                    let msg = ns.tx.to_bytes();
                    match (load(&msg, *hex), facts(&msg)) {
                        (Ok(tx), Some(base)) => {
                            ns.tx = tx;
                            ns.base = base;
                            ns.added_vkeys.clear();
                            ns.added_boots.clear();
                        }
                        (Err(e), _) => out.violate("C04.reload", "own_serialization_rejected", format!("step {}: node {} cannot reload its own bytes: {}", step, node, e)),
                        _ => {}
                    }
                }
            }
            SOp::SetPartAgain { node, part } => {
                if let Some(ns) = nodes[*node as usize].as_mut() {
                    out.count("c04.raw_parts_set_again", 1);
                    let r = match part % 5 {
                        3 => match ns.tx.raw_auxiliary_data() {
                            Some(a) => {
                                let mut rr = Rng::new(mix(c.hash_seed, step as u64));
                                let alt = match cbor::parse(&a) {
                                    Ok(n) => {
                                        let mut fe = Foreign::new(&mut rr, 200, 400, 0, 300);
                                        let mut o = vec![];
                                        fe.emit(&n, &mut o);
                                        o
                                    }
                                    Err(_) => a.clone(),
                                };
                                match ns.tx.set_auxiliary_data(&alt) {
                                    Ok(()) => {
                                        out.count("c04.auxiliary_data_replaced_by_other_encoding", (alt != a) as u64);
                                        ns.aux_override = Some(alt);
                                        Ok(())
                                    }
                                    // the decoder may refuse an encoding; then nothing changes
                                    Err(_) => Ok(()),
                                }
                            }
                            None => Ok(()),
                        },
                        4 => {
                            let whole = ns.tx.to_bytes();
                            if ns.tx.set_body(&whole).is_ok() {
                                Err("a whole transaction was accepted as a body".to_string())
                            } else {
                                out.count("fault.F4_refused_set_body", 1);
                                Ok(())
                            }
                        }
                        0 => {
                            let ws = ns.tx.raw_witness_set();
                            ns.tx.set_witness_set(&ws).map_err(|e| format!("{:?}", e))
                        }
                        1 => {
                            let b = ns.tx.raw_body();
                            ns.tx.set_body(&b).map_err(|e| format!("{:?}", e))
                        }
                        _ => match ns.tx.raw_auxiliary_data() {
                            Some(a) => ns.tx.set_auxiliary_data(&a).map_err(|e| format!("{:?}", e)),
                            None => Ok(()),
                        },
                    };
                    if let Err(e) = r {
                        out.violate("C04.reload", "own_part_rejected", format!("step {}: node {} cannot set the part {} it holds again: {}", step, node, part % 5, e));
                    }
                }
            }
            SOp::LoadFromBody { node } => {
                let b = f.body.clone();
                match exec::guard(|| csl::FixedTransaction::new_from_body_bytes(&b)) {
                    Ok(mut tx) => {
                        out.count("c04.loaded_from_body_bytes", 1);
                        // telling the copy what it already says changes nothing
                        tx.set_is_valid(tx.is_valid());
                        let base = Facts { body: f.body.clone(), hash: f.hash, aux: None, is_valid: true, ws_fields: vec![], vkeys: BTreeSet::new(), boots: BTreeSet::new() };
                        nodes[*node as usize] = Some(NodeState { tx, base, added_vkeys: BTreeSet::new(), added_boots: BTreeSet::new(), aux_override: None, body_only: true });
                        out.nontrivial = true;
                    }
                    Err(exec::Res::Panic(_)) => out.count("panics_observed", 1),
                    Err(_) => out.count("c04.artefact_rejected_by_decoder", 1),
                }
            }
            SOp::HandCopy { from, to } => {
                if from != to {
                    if let Some(src) = &nodes[*from as usize] {
                        let copy = NodeState { tx: src.tx.clone(), base: src.base.clone(), added_vkeys: src.added_vkeys.clone(), added_boots: src.added_boots.clone(), aux_override: src.aux_override.clone(), body_only: src.body_only };
                        nodes[*to as usize] = Some(copy);
                        out.count("c04.in_memory_copies_handed_over", 1);
                    }
                }
            }
            SOp::Merge { from, to } => {
                if from != to {
                    if let (Some(src), true) = (&nodes[*from as usize], nodes[*to as usize].is_some()) {
                        let wsx = src.tx.witness_set();
                        let mut av = src.base.vkeys.clone();
                        av.extend(src.added_vkeys.iter().cloned());
                        let mut ab = src.base.boots.clone();
                        ab.extend(src.added_boots.iter().cloned());
                        let dst = nodes[*to as usize].as_mut().unwrap();
                        if let Some(vk) = wsx.vkeys() {
                            for i in 0..vk.len() {
                                dst.tx.add_vkey_witness(&vk.get(i));
                            }
                        }
                        if let Some(bw) = wsx.bootstraps() {
                            for i in 0..bw.len() {
                                dst.tx.add_bootstrap_witness(&bw.get(i));
                            }
                        }
                        // adding an original witness again touches the field but must not duplicate it
                        let touched_v = wsx.vkeys().map_or(false, |v| v.len() > 0);
                        let touched_b = wsx.bootstraps().map_or(false, |v| v.len() > 0);
                        dst.added_vkeys.extend(av);
                        dst.added_boots.extend(ab);
                        let _ = (touched_v, touched_b);
                        out.count("fault.F6_merge_witness_by_witness", 1);
                    }
                }
            }
        }
        // invariants at every node after every step
        for (id, n) in nodes.iter().enumerate() {
            if let Some(ns) = n {
                check_node(step, id as u8, ns, &f, &mut out);
            }
        }
        sig = mix(sig, match op {
            SOp::LoadOriginal { hex, .. } => 1 + *hex as u64,
            SOp::LoadFromParts { .. } => 11,
            SOp::Forward { .. } => 3,
            SOp::SignVkey { via_helper, .. } => 4 + *via_helper as u64,
            SOp::SignIcarus { via_helper, .. } => 6 + *via_helper as u64,
            SOp::SignDaedalus { .. } => 8,
            SOp::Restart { .. } => 9,
            SOp::SetPartAgain { .. } => 11,
            SOp::Merge { .. } => 10,
            SOp::HandCopy { .. } => 12,
            SOp::LoadFromBody { .. } => 13,
        });
        if !out.violations.is_empty() {
            break;
        }
    }
    out.sig = sig;
    out.digest = mix(out.digest, mix(sig, sim.digest()));
    drop(sim);
    out
}

impl Prop for C04 {
    type Case = Case;
    fn id(&self) -> &'static str {
        "C04"
    }
    fn runs(&self, tier: Tier) -> u64 {
        match tier {
            Tier::Quick => 70_000,
            Tier::Thorough => 2_000_000,
        }
    }
    fn rule_text(&self) -> String {
        "one run = one multi-party history: an originator builds a transaction in a seeded wallet session; two times out of three a foreign peer re-encodes it (wide heads, indefinite containers, chunked byte strings, permuted map keys, untagged sets; F8); up to 5 signer nodes load it from bytes or hex, sign with key / Icarus / Daedalus keys through both APIs, restart between load and sign (F5), forward their copies in seeded order (F7), receive duplicates and sign twice (F6), and a collector merges witness by witness — after every step every node is checked: raw_body / serialized body = original body span, transaction_hash = Blake2b-256 of it, auxiliary span and is_valid unchanged, untouched witness fields byte-identical, touched fields = original + added witnesses each once, added signatures verify; every datum span of the artefact is relayed through PlutusData::from_bytes/to_bytes — non-trivial = at least one node loaded the artefact; distinct = distinct signature (foreign or not x witness fields x op kinds)".into()
    }
    fn generate(&self, seed: u64, tier: Tier) -> Case {
        gen(seed, tier)
    }
    fn execute(&self, case: &Case) -> Outcome {
        execute(case)
    }
    fn pin(&self, case: &Case) -> Case {
        let mut c = case.clone();
        c.session = sess::pin(&case.session);
        c
    }
    fn shrink_candidates(&self, c: &Case) -> Vec<Case> {
        let mut v = vec![];
        let n = c.ops.len();
        let mut chunk = n / 2;
        while chunk >= 1 {
            let mut s = 0;
            while s < n {
                let e = (s + chunk).min(n);
                if e - s < n {
                    let mut cc = c.clone();
                    cc.ops.drain(s..e);
                    v.push(cc);
                }
                s += chunk;
            }
            chunk /= 2;
        }
        if let Some((a, b, cc_, d, e, s)) = c.foreign {
            let mut x = c.clone();
            x.foreign = None;
            v.push(x);
            for (i, val) in [a, b, cc_, d, e].iter().enumerate() {
                if *val > 0 {
                    let mut t = [a, b, cc_, d, e];
                    t[i] = 0;
                    let mut x = c.clone();
                    x.foreign = Some((t[0], t[1], t[2], t[3], t[4], s));
                    v.push(x);
                }
            }
        }
        for s in sess::shrink_candidates(&c.session).into_iter().take(60) {
            let mut x = c.clone();
            x.session = s;
            v.push(x);
        }
        v
    }
    fn size(&self, c: &Case) -> usize {
        c.ops.len() * 3 + sess::size(&c.session) + c.foreign.map_or(0, |f| ((f.0 > 0) as usize) + ((f.1 > 0) as usize) + ((f.2 > 0) as usize) + ((f.3 > 0) as usize) + ((f.4 > 0) as usize) + 1)
    }
    fn components(&self) -> (Vec<&'static str>, Vec<&'static str>) {
        (
            vec!["cardano-serialization-lib FixedTransaction, witness-set raw parts, PlutusData codec, signing helpers (real code)", "the transaction builder as originator"],
            vec!["network (seeded scheduler of deliveries, restarts, duplicates)", "foreign peer (harness CBOR writer)", "harness CBOR reader, Blake2b and Ed25519 verification (cryptoxide)"],
        )
    }
    fn assumptions(&self) -> Vec<String> {
        vec!["encodings the decoder rejects are counted, not claimed".into(), "Ed25519 signing is deterministic, so the witness a signer must have added is known to the harness".into(), "quantifier covers add-signature operations only (set_body etc. are outside it)".into()]
    }
    fn fault_kinds(&self) -> Vec<&'static str> {
        vec!["F5 restart", "F6 duplicated delivery / signing twice", "F7 reordering of deliveries", "F8 foreign peer encoding", "S1/S2/K9 in the originator's session"]
    }
}

//! C03 — emitted bytes conform to the Conway-era CDDL (transactions the builder and the batcher emit).
use crate::ctl::{RngPlan, Sampler, Sim};
use crate::exec;
use crate::prng::Rng;
use crate::props::builder::{common, tx_bytes_of};
use crate::props::c13;
use crate::runner::{Outcome, Prop, Tier};
use crate::scn::Scenario;
use crate::sess;
use crate::strict;
use crate::wallet::{self, Profile};
use cardano_serialization_lib as csl;
use serde::{Deserialize, Serialize};

#[derive(Serialize, Deserialize, Clone, Debug)]
pub enum Case {
    Session(Scenario),
    SendAll(c13::Case),
}

pub struct C03;

fn profile_c03() -> Profile {
    let mut p = Profile::base("c03");
    p.plutus = 400;
    p.native_inputs = 300;
    p.byron = 250;
    p.ref_scripts = 400;
    p.certs = 600;
    p.legacy_certs = 150;
    p.script_certs = 300;
    p.withdrawals = 350;
    p.mint = 400;
    p.votes = 300;
    p.proposals = 350;
    p.metadata = 450;
    p.req_signers = 250;
    p.ref_inputs = 250;
    p.extra_datums = 250;
    p.misc_fields = 400;
    p.out_features = 450;
    p.many_assets = 200;
    p.tight = 100;
    p.max_ops_scale = 2;
    // datums decoded from a foreign peer's bytes keep those bytes (C04); they are not values built
    // through the typed API, so the shortest-encoding clause does not speak about them
    p.alt_datums = 0;
    p
}

fn report(errs: Vec<(String, String)>, what: &str, op: usize, out: &mut Outcome) {
    for (class, detail) in errs {
        out.violate(&format!("C03.{}", class), &class, format!("{} (op {}): {}", what, op, detail));
    }
}

fn run_session(sc: &Scenario) -> Outcome {
    let (h, signed) = wallet::run_and_sign(sc);
    let mut out = Outcome::default();
    common(sc, &h, &signed, &mut out);
    for (bi, b) in h.built.iter().enumerate() {
        out.nontrivial = true;
        out.count("c03.artefacts_validated", 1);
        let bytes = tx_bytes_of(b);
        report(strict::validate_tx(&bytes), if b.full { "built transaction" } else { "built body" }, b.op, &mut out);
        if let Some(Some(Ok(s))) = signed.get(bi) {
            out.count("c03.signed_artefacts_validated", 1);
            report(strict::validate_tx(&s.bytes), "signed transaction", b.op, &mut out);
            // Byron owners may also sign with legacy (Daedalus-style) keys: the same transaction with its
            // bootstrap witnesses made by that helper
            if s.n_bootstrap > 0 {
                if let (Some(tx), Ok(v)) = (&b.tx, crate::oracle::TxView::parse(&s.bytes)) {
                    let th = csl::TransactionHash::from_bytes(v.body_hash().to_vec()).unwrap();
                    let mut bw = csl::BootstrapWitnesses::new();
                    for a in &s.required.byron {
                        if let Some(bm) = wallet::byron_mat_by_addr(a, sc.world.magic) {
                            if let Ok(dk) = csl::LegacyDaedalusPrivateKey::from_bytes(&bm.xprv.as_bytes()) {
                                bw.add(&csl::make_daedalus_bootstrap_witness(&th, &bm.addr, &dk));
                            }
                        }
                    }
                    if bw.len() > 0 {
                        let mut ws = tx.witness_set();
                        ws.set_bootstraps(&bw);
                        let t2 = csl::Transaction::new(&tx.body(), &ws, tx.auxiliary_data());
                        out.count("c03.daedalus_signed_artefacts_validated", 1);
                        report(strict::validate_tx(&t2.to_bytes()), "transaction signed with legacy Daedalus keys", b.op, &mut out);
                    }
                }
            }
        }
        placement(sc, &h, b, &bytes, &mut out);
    }
    out
}

/// Map keys are "as specified" only if each value sits under the key the specification gives it.
/// Two fields of the same CBOR type (ttl / validity start, donation / treasury, collateral /
/// reference inputs ...) cannot be told apart by shape, so the value found under each key is
/// compared with what the history put into the builder.
fn placement(sc: &Scenario, h: &crate::exec::History, b: &crate::exec::BuiltObs, bytes: &[u8], out: &mut Outcome) {
    use crate::scn::Op;
    let v = match crate::oracle::TxView::parse(bytes) {
        Ok(v) => v,
        Err(_) => return,
    };
    let body = v.body();
    let mut ttl = None;
    let mut start = None;
    let mut donation = None;
    let mut treasury = None;
    let mut coll: Vec<(Vec<u8>, u64)> = vec![];
    let mut req: Vec<Vec<u8>> = vec![];
    let mut explicit_refs: Vec<(Vec<u8>, u64)> = vec![];
    for (i, op) in sc.ops.iter().enumerate() {
        if i >= b.op || !h.results[i].is_ok() {
            continue;
        }
        match op {
            Op::Ttl(t) => ttl = Some(*t),
            Op::Start(t) => start = Some(*t),
            Op::RemoveTtl => ttl = None,
            Op::RemoveStart => start = None,
            Op::Donation(d) => donation = Some(*d),
            Op::Treasury(t) => treasury = Some(*t),
            Op::CollUtxo(u) => coll.push(sc.world.outpoint(*u)),
            Op::ReqSigner(k) => req.push(crate::world::key(*k).hash_bytes.to_vec()),
            Op::RefIn(u, _) => explicit_refs.push(sc.world.outpoint(*u)),
            _ => {}
        }
    }
    out.count("c03.placement_checked", 1);
    let mut check_uint = |key: u64, want: Option<u64>, name: &str, out: &mut Outcome| {
        let got = body.get(key).and_then(|n| n.as_u64());
        if got != want {
            out.violate("C03.field_placement", &format!("{}_not_under_key_{}", name, key), format!("op {}: the history set {} = {:?} but body[{}] = {:?}", b.op, name, want, key, got));
        }
    };
    check_uint(3, ttl, "ttl", out);
    check_uint(8, start, "validity_start", out);
    check_uint(22, donation, "donation", out);
    check_uint(21, treasury, "current_treasury_value", out);
    let fee = b.builder.get_fee_if_set().map(u64::from);
    check_uint(2, fee, "fee", out);
    // inputs: what the builder holds
    let want_inputs: std::collections::BTreeSet<(Vec<u8>, u64)> = b.builder.verif_input_list().iter().map(|(i, _)| (i.transaction_id().to_bytes(), i.index() as u64)).collect();
    let got_inputs: std::collections::BTreeSet<(Vec<u8>, u64)> = v.inputs_of(0).unwrap_or_default().into_iter().collect();
    if want_inputs != got_inputs {
        out.violate("C03.field_placement", "inputs_not_under_key_0", format!("op {}: body[0] holds {} inputs, the builder {}", b.op, got_inputs.len(), want_inputs.len()));
    }
    let got_coll: std::collections::BTreeSet<(Vec<u8>, u64)> = v.inputs_of(13).unwrap_or_default().into_iter().collect();
    let want_coll: std::collections::BTreeSet<(Vec<u8>, u64)> = coll.into_iter().collect();
    if got_coll != want_coll {
        out.violate("C03.field_placement", "collateral_not_under_key_13", format!("op {}: body[13] holds {} collateral inputs, the history set {}", b.op, got_coll.len(), want_coll.len()));
    }
    let got_refs: std::collections::BTreeSet<(Vec<u8>, u64)> = v.inputs_of(18).unwrap_or_default().into_iter().collect();
    for r in &explicit_refs {
        if !got_refs.contains(r) && !got_inputs.contains(r) {
            out.violate("C03.field_placement", "reference_input_not_under_key_18", format!("op {}: explicit reference input {}#{} is not in body[18]", b.op, hex::encode(&r.0[..4]), r.1));
        }
    }
    let got_req: Vec<Vec<u8>> = body.get(14).and_then(|n| n.set_items()).map(|a| a.iter().filter_map(|x| x.as_bytes().map(|b| b.to_vec())).collect()).unwrap_or_default();
    for k in &req {
        if !got_req.contains(k) {
            out.violate("C03.field_placement", "required_signer_not_under_key_14", format!("op {}: required signer {} is not in body[14]", b.op, hex::encode(&k[..4])));
        }
    }
    // total collateral / collateral return as the builder holds them
    let (cret, ctot) = b.builder.verif_collateral_fields();
    check_uint(17, ctot.map(u64::from), "total_collateral", out);
    let got_ret = body.get(16).map(|n| v.span(n).to_vec());
    let want_ret = cret.map(|o| o.to_bytes());
    if got_ret != want_ret {
        out.violate("C03.field_placement", "collateral_return_not_under_key_16", format!("op {}: body[16] differs from the collateral return held by the builder", b.op));
    }
}

fn run_send_all(c: &c13::Case) -> Outcome {
    let mut out = Outcome::default();
    let plan = RngPlan { sampler: Sampler::Uniform, seed: 0, forced: None };
    let sim = Sim::install(&plan, c.hash_seeds.get(0).cloned().unwrap_or(0));
    let w = &c.world;
    let cfg = exec::config(&c.knobs);
    let mut utxos = csl::TransactionUnspentOutputs::new();
    for i in &c.offered {
        if *i < w.utxos.len() {
            utxos.add(&w.utxo(*i));
        }
    }
    let target = w.address(&c.target);
    let res = exec::guard(|| csl::create_send_all(&target, &utxos, &cfg));
    out.digest = sim.digest();
    drop(sim);
    out.steps = 1;
    if let Ok(list) = res {
        for bi in 0..list.len() {
            let batch = list.get(bi);
            for ti in 0..batch.len() {
                out.nontrivial = true;
                out.count("c03.send_all_transactions_validated", 1);
                report(strict::validate_tx(&batch.get(ti).to_bytes()), "send-all transaction", ti, &mut out);
            }
        }
    }
    out.sig = crate::prng::mix(c.offered.len() as u64, 77);
    out
}

impl Prop for C03 {
    type Case = Case;
    fn id(&self) -> &'static str {
        "C03"
    }
    fn runs(&self, tier: Tier) -> u64 {
        match tier {
            Tier::Quick => 80_000,
            Tier::Thorough => 2_500_000,
        }
    }
    fn rule_text(&self) -> String {
        "one run = one wallet session of a profile that enables every feature (all certificate kinds incl. pre-Conway, all 7 governance actions incl. parameter updates, votes, withdrawals, mint, legacy and map outputs with datum/script reference, all witness kinds, the three auxiliary-data shapes) or, one time in eight, one create_send_all call — non-trivial = at least one emitted transaction/body (as built, and again after signing) was validated byte by byte by the strict schema-directed Conway validator: map keys, arities, tags, integer ranges, size bounds, shortest definite encodings (except non-empty Plutus lists and chunked byte strings over 64 bytes), tag 258 and duplicate-freeness of set-typed fields, canonical multi-asset/mint key order, no zero quantity and no empty policy bundle in outputs; distinct = distinct state signature as for C05".into()
    }
    fn generate(&self, seed: u64, tier: Tier) -> Case {
        let mut r = Rng::stream(seed, 13);
        if r.chance(1, 8) {
            Case::SendAll(c13::C13.generate(seed, Tier::Quick))
        } else {
            Case::Session(wallet::generate(seed, tier, &profile_c03()))
        }
    }
    fn execute(&self, case: &Case) -> Outcome {
        match case {
            Case::Session(sc) => run_session(sc),
            Case::SendAll(c) => run_send_all(c),
        }
    }
    fn pin(&self, case: &Case) -> Case {
        match case {
            Case::Session(sc) => Case::Session(sess::pin(sc)),
            c => c.clone(),
        }
    }
    fn shrink_candidates(&self, case: &Case) -> Vec<Case> {
        match case {
            Case::Session(sc) => sess::shrink_candidates(sc).into_iter().map(Case::Session).collect(),
            Case::SendAll(c) => c13::C13.shrink_candidates(c).into_iter().map(Case::SendAll).collect(),
        }
    }
    fn size(&self, case: &Case) -> usize {
        match case {
            Case::Session(sc) => sess::size(sc),
            Case::SendAll(c) => c13::C13.size(c),
        }
    }
    fn components(&self) -> (Vec<&'static str>, Vec<&'static str>) {
        (
            vec!["cardano-serialization-lib serializers reached through TransactionBuilder, Transaction::new and create_send_all (real code)"],
            vec!["strict Conway validator (strict.rs) over the harness CBOR reader", "RNG answers and hash keys (simulator)"],
        )
    }
    fn assumptions(&self) -> Vec<String> {
        vec![
            "claimed for transactions the builder and the batcher emit in simulated sessions; typed values that never occur inside a built transaction are a pure-function matter and not claimed".into(),
            "the order of the integer keys of struct-like maps is not judged (the CDDL does not fix one)".into(),
            "the datum set of the witness set may be an indefinite-length list under tag 258 (it is a Plutus list inside the library)".into(),
            "requested outputs never carry zero quantities; the zero/empty-bundle clause is therefore applied to every output".into(),
        ]
    }
    fn fault_kinds(&self) -> Vec<&'static str> {
        vec!["S1 RNG schedule", "S2 hash-order schedule", "F4 failed operation then continue", "F6 repeated hand-over / replacement of an entry", "F8 values decoded from another producer's encoding", "K9 knob randomisation"]
    }
}

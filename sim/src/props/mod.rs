pub mod builder;
pub mod builder2;
pub mod c08;

pub mod c08;

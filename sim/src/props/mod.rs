pub mod builder;
pub mod builder2;
pub mod c03;
pub mod c04;
pub mod c08;
pub mod c13;
pub mod c16;

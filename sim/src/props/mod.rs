pub mod builder;
pub mod c08;

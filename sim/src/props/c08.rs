//! C08 — coin selection is sound under every random outcome.
use crate::ctl::Ev;
use crate::exec::{self, Res, SelectObs};
use crate::prng::{mix, Rng};
use crate::runner::{Outcome, Prop, Tier};
use crate::scn::*;
use crate::sess;
use crate::world::*;
use cardano_serialization_lib as csl;
use std::collections::{BTreeMap, BTreeSet};

pub struct C08;

const NKEYS: u16 = 6;

fn asset_pool(r: &mut Rng) -> Vec<(u16, Vec<u8>)> {
    let n = 1 + r.below(4) as usize;
    let mut v = vec![];
    for _ in 0..n {
        let p = 100 + r.below(3) as u16;
        let name = sess::gen_asset_name(r);
        if !v.contains(&(p, name.clone())) {
            v.push((p, name));
        }
    }
    v
}

pub fn generate(seed: u64, tier: Tier) -> Scenario {
    let mut r = Rng::stream(seed, 1);
    let mut rr = Rng::stream(seed, 2);
    let mut rh = Rng::stream(seed, 3);
    let vary = r.chance(1, 2);
    let mut knobs = sess::gen_knobs(&mut r, vary);
    let strategy = *r.pick(&STRATEGIES);
    let ma = matches!(strategy, Strategy::LFMA | Strategy::RIMA) && r.chance(2, 3);
    let profile = r.weighted(&[70, 8, 8, 14]); // clean, dup-in-offered, offered-overlaps-pre, retry
    let mut w = World { network: r.below(2) as u8, magic: 764824073, scripts: vec![], datums: vec![], utxos: vec![], decoded_scripts: false };
    // one native mint policy is always available as script 0
    w.scripts.push(ScriptSpec::Native(Ns::Pk(0)));
    let pool = asset_pool(&mut r);
    let byron_pm = *r.pick(&[0u64, 0, 100, 400]);
    let mut ops: Vec<Op> = vec![];

    // ---- outputs
    let n_out = *r.pick(&[0usize, 1, 1, 1, 2, 2, 2, 3, 4, 8]);
    let base_min = sess::approx_min_ada(&knobs, 70).max(1);
    let mut outs: Vec<OutSpec> = vec![];
    let identical = n_out >= 2 && r.chance(1, 3);
    for i in 0..n_out {
        if identical && i > 0 && r.chance(3, 4) {
            outs.push(outs[0].clone());
            continue;
        }
        let mult = *r.pick(&[1u64, 1, 2, 3, 5, 10]);
        let mut coin = base_min * mult + r.below(base_min / 2 + 1);
        if r.chance(1, 12) {
            coin = coin.max(*r.pick(&[65535u64, 65536, 4294967295, 4294967296, 1 << 40]));
        }
        let mut assets = vec![];
        if ma && r.chance(2, 3) {
            let k = 1 + r.usize_below(pool.len().min(3));
            for j in 0..k {
                let (p, n) = pool[(j + i) % pool.len()].clone();
                if !assets.iter().any(|a: &AssetQ| a.p == p && a.n == n) {
                    let hi = *r.pick(&[3u64, 50, 1000, 100000]);
                    assets.push(AssetQ { p, n, q: 1 + r.below(hi) });
                }
            }
            coin += sess::approx_min_ada(&knobs, 60 * assets.len() as u64);
        }
        outs.push(OutSpec { addr: sess::gen_key_addr(&mut r, NKEYS, 30), coin, assets, datum: None, script_ref: None, min_coin: false, form: 0 });
    }
    let out_total: u64 = outs.iter().map(|o| o.coin).fold(0u64, |a, b| a.saturating_add(b));

    // ---- extras that move the target
    let mut extra_need: u64 = 0;
    let mut extra_have: u64 = 0;
    let mut extras: Vec<Op> = vec![];
    if r.chance(1, 6) {
        let amt = r.range(1, 3_000_000);
        extras.push(Op::Wdr(Cred::Key(r.below(NKEYS as u64) as u16), amt, None));
        extra_have += amt;
    }
    if r.chance(1, 6) {
        let c = Cred::Key(r.below(NKEYS as u64) as u16);
        if r.chance(1, 2) {
            extras.push(Op::Cert(CertSpec::StakeReg(c), None));
            extra_need += knobs.key_deposit;
        } else {
            let d = r.range(0, 3_000_000);
            extras.push(Op::Cert(CertSpec::StakeRegCoin(c, d), None));
            extra_need += d;
        }
    }
    if r.chance(1, 10) {
        extras.push(Op::Cert(CertSpec::StakeDereg(Cred::Key(r.below(NKEYS as u64) as u16)), None));
        extra_have += knobs.key_deposit;
    }
    if r.chance(1, 8) {
        let (name, qty) = (sess::gen_asset_name(&mut r), r.range(1, 1000) as i64);
        extras.push(Op::Mint { wit: Wit { script: 0, how: ScriptUse::Witness, datum: DatumUse::None, red: 0, mem: 0, steps: 0, signers: None }, name, qty, set: false });
    }
    if r.chance(1, 12) {
        extras.push(Op::Donation(r.range(1, 2_000_000)));
    }
    if r.chance(1, 12) {
        extras.push(Op::FeeMin(*r.pick(&[0u64, 170_000, 200_000, 1_000_000])));
    }
    if r.chance(1, 25) {
        extras.push(Op::FeeExact(*r.pick(&[170_000u64, 200_000, 300_000, 1_000_000])));
    }
    if r.chance(1, 10) {
        extras.push(Op::ReqSigner(r.below(NKEYS as u64) as u16));
    }

    // ---- amounts of pre-existing inputs and offered UTxOs
    let approx_fee = knobs.fee_b + knobs.fee_a * 350;
    let need = out_total.saturating_add(extra_need).saturating_add(approx_fee).saturating_sub(extra_have.min(out_total / 2));
    let n_pre = *r.pick(&[0usize, 0, 0, 1, 1, 2, 3, 6]);
    let max_off = if tier == Tier::Thorough { *r.pick(&[0usize, 1, 2, 3, 5, 8, 10, 15, 25, 40, 80, 200]) } else { *r.pick(&[0usize, 1, 2, 3, 4, 5, 6, 8, 10, 15, 25, 40]) };
    let tight = r.below(5);
    let eps_range = *r.pick(&[1u64, 50, 2000, 8000, 20000, 200000]);
    let min_utxo = sess::approx_min_ada(&knobs, 60).max(1);
    let mut next_tx = 1u32;
    let mut mk_utxo = |r: &mut Rng, w: &mut World, coin: u64, assets: Vec<AssetQ>| -> usize {
        let tx = next_tx;
        next_tx += 1;
        let addr = sess::gen_key_addr(r, NKEYS, byron_pm);
        let extra_min = sess::approx_min_ada(&knobs, 50 * assets.len() as u64) - sess::approx_min_ada(&knobs, 0);
        let coin = coin.max(min_utxo + if assets.is_empty() { 0 } else { extra_min + sess::approx_min_ada(&knobs, 0) / 4 });
        w.utxos.push(Utxo { tx: if r.chance(1, 6) { tx / 2 } else { tx }, ix: r.below(4) as u32 + tx % 3 * 4, addr, coin, empty_ma: if assets.is_empty() { r.chance(1, 15) } else { r.chance(1, 40) }, assets, datum: None, script_ref: None });
        w.utxos.len() - 1
    };
    let mut gen_amount = |r: &mut Rng, k_hint: u64| -> u64 {
        let eps = r.below(eps_range);
        match tight {
            0 => need / k_hint.max(1) + eps,
            1 => {
                let oc = if outs.is_empty() { base_min } else { outs[r.usize_below(outs.len())].coin };
                let f = *r.pick(&[1u64, 2, 2, 3, 4, 6]);
                (oc / 2).saturating_mul(f).saturating_add(eps)
            }
            2 => {
                let e = r.range(18, 36);
                (1u64 << e) + r.below(1 << (e - 2))
            }
            3 => (if outs.is_empty() { base_min } else { outs[0].coin }).saturating_add(eps_range / 2),
            _ => {
                if r.chance(1, 2) {
                    need / k_hint.max(1) + eps
                } else {
                    min_utxo + eps
                }
            }
        }
    };
    let gen_assets = |r: &mut Rng| -> Vec<AssetQ> {
        let mut v = vec![];
        if !ma && !r.chance(1, 10) {
            return v;
        }
        for (p, n) in pool.iter() {
            if r.chance(1, 2) {
                let hi = *r.pick(&[3u64, 50, 1000, 100000]);
                v.push(AssetQ { p: *p, n: n.clone(), q: 1 + r.below(hi) });
            }
        }
        v
    };
    let mut pre_ids = vec![];
    for _ in 0..n_pre {
        let kh = *r.pick(&[2u64, 3, 4, 8]);
        let a = gen_amount(&mut r, kh);
        let assets = gen_assets(&mut r);
        let id = mk_utxo(&mut r, &mut w, a, assets);
        pre_ids.push(id);
    }
    let k_hint = *r.pick(&[1u64, 2, 3, 4, 6]);
    let mut off_ids = vec![];
    for _ in 0..max_off {
        let a = gen_amount(&mut r, k_hint);
        let assets = gen_assets(&mut r);
        let id = mk_utxo(&mut r, &mut w, a, assets);
        off_ids.push(id);
    }
    // one scenario in twelve: wallet UTxOs that carry a reference script (spending them costs the tiered fee)
    if r.chance(1, 12) {
        // (two of the 13 000-byte scripts together pass the first 25 KiB tier of the reference-script price)
        w.scripts.push(ScriptSpec::Plutus { lang: 2, len: *r.pick(&[10u32, 500, 3000, 9000, 13000]), fill: 3 });
        let sid = (w.scripts.len() - 1) as u16;
        for id in off_ids.iter() {
            if r.chance(1, 3) {
                w.utxos[*id].script_ref = Some(sid);
                w.utxos[*id].coin += sess::approx_min_ada(&knobs, 3100);
            }
        }
        // rare knobs meet the feature they interact with: a flat fee (coefficient 0) or a free / dear script byte
        match r.below(6) {
            0..=2 => knobs.fee_a = 0,
            3 => knobs.ref_script_price = Some((*r.pick(&[0u64, 1, 44, 1000]), 1)),
            _ => {}
        }
    }
    // make outpoints unique (ledger-valid world)
    let mut seen = BTreeSet::new();
    for u in w.utxos.iter_mut() {
        while !seen.insert((u.tx, u.ix)) {
            u.ix += 1;
        }
    }
    match r.below(4) {
        0 => off_ids.sort_by_key(|i| w.utxos[*i].coin),
        1 => {
            off_ids.sort_by_key(|i| w.utxos[*i].coin);
            off_ids.reverse()
        }
        _ => r.shuffle(&mut off_ids),
    }

    // ---- operation list: seeded order of pre-state operations, then the selection
    let mut pre_ops: Vec<Op> = vec![];
    for id in &pre_ids {
        pre_ops.push(if r.chance(1, 5) { Op::InLegacy(*id) } else { Op::InUtxo(*id) });
    }
    for o in &outs {
        pre_ops.push(Op::Out(o.clone()));
    }
    pre_ops.extend(extras);
    r.shuffle(&mut pre_ops);
    ops.extend(pre_ops);
    let mut prof = "clean";
    match profile {
        1 if off_ids.len() >= 1 => {
            prof = "dup_in_offered";
            let d = off_ids[r.usize_below(off_ids.len())];
            let pos = r.usize_below(off_ids.len() + 1);
            off_ids.insert(pos, d);
            ops.push(Op::Select(strategy, off_ids.clone()));
        }
        2 if !pre_ids.is_empty() => {
            prof = "offered_overlaps_pre";
            let d = pre_ids[r.usize_below(pre_ids.len())];
            let pos = r.usize_below(off_ids.len() + 1);
            off_ids.insert(pos, d);
            ops.push(Op::Select(strategy, off_ids.clone()));
        }
        3 if off_ids.len() >= 2 => {
            prof = "retry";
            let k = 1 + r.usize_below(off_ids.len() / 2);
            ops.push(Op::Select(strategy, off_ids[..k].to_vec()));
            let s2 = if r.chance(1, 3) { *r.pick(&STRATEGIES) } else { strategy };
            // an honest wallet offers what it has not yet used – the simulator knows nothing about
            // what the first call used, so it offers the rest
            ops.push(Op::Select(s2, off_ids[k..].to_vec()));
        }
        _ => ops.push(Op::Select(strategy, off_ids.clone())),
    }
    Scenario { knobs, world: w, ops, rng: sess::gen_rng_plan(&mut rr), hash_seed: rh.next(), profile: format!("c08/{}/{:?}/tight{}", prof, strategy, tight), alt_values: if rh.chance(1, 4) { 1 + rh.below(250) as u8 } else { 0 } }
}

fn name_key(n: &[u8]) -> (usize, Vec<u8>) {
    (n.len(), n.to_vec())
}

fn world_val(w: &World, op: &(Vec<u8>, u64)) -> Option<(usize, GVal)> {
    w.find_outpoint(&op.0, op.1).map(|i| (i, GVal::of_utxo(w, &w.utxos[i])))
}

/// total of ground-truth values of a list of builder inputs; None when an input is unknown to the world
fn truth_total(w: &World, ins: &exec::InList) -> Option<GVal> {
    let mut t = GVal::default();
    for (op, _) in ins {
        t.add(&world_val(w, op)?.1);
    }
    Some(t)
}

/// The pre-state builder with the pre-existing inputs plus the given world UTxOs as inputs, added as
/// whole UTxOs (so that reference scripts they carry are charged) — the measuring device of rules 4 and 5.
fn with_inputs(sc: &Scenario, s: &SelectObs, extra: &[usize]) -> Option<csl::TransactionBuilder> {
    let w = &sc.world;
    let mut inb = csl::TxInputsBuilder::new();
    let mut seen = BTreeSet::new();
    for (op, _) in &s.pre_inputs {
        let i = w.find_outpoint(&op.0, op.1)?;
        seen.insert(w.outpoint(i));
        inb.add_regular_utxo(&w.utxo(i)).ok()?;
    }
    for i in extra {
        if seen.insert(w.outpoint(*i)) {
            inb.add_regular_utxo(&w.utxo(*i)).ok()?;
        }
    }
    // keys the history declared on the inputs builder itself travel with it
    for op in sc.ops.iter().take(s.op) {
        if let Op::InReqSigner(k) = op {
            inb.add_required_signer(&key(*k).hash);
        }
    }
    let mut b = s.pre.clone();
    b.set_inputs(&inb);
    Some(b)
}

pub fn check_select(sc: &Scenario, s: &SelectObs, out: &mut Outcome, dup_class: &str) {
    let w = &sc.world;
    let cls = |base: &str| -> String {
        if dup_class.is_empty() {
            base.to_string()
        } else {
            format!("{}/{}", base, dup_class)
        }
    };
    let pre: BTreeMap<(Vec<u8>, u64), GVal> = s.pre_inputs.iter().cloned().collect();
    let post: BTreeMap<(Vec<u8>, u64), GVal> = s.post_inputs.iter().cloned().collect();
    // rule 1: inputs already in the builder are untouched (holds after Ok and after Err)
    for (k, v) in &pre {
        match post.get(k) {
            None => out.violate("C08.untouched", &cls("pre_input_removed"), format!("op {}: pre-existing input {}#{} disappeared", s.op, hex::encode(&k.0[..4]), k.1)),
            Some(v2) if v2 != v => out.violate(
                "C08.untouched",
                &cls("pre_input_amount_changed"),
                format!("op {}: pre-existing input {}#{} recorded {} before, {} after", s.op, hex::encode(&k.0[..4]), k.1, v.describe(), v2.describe()),
            ),
            _ => {}
        }
    }
    if !s.res.is_ok() {
        // rule 5: largest-first reports insufficiency only if everything offered does not suffice
        if let Res::Err(e) = &s.res {
            if e.contains("UTxO Balance Insufficient") && matches!(s.strategy, Strategy::LF | Strategy::LFMA) && !s.combined {
                let measured = with_inputs(sc, s, &s.offered);
                let ok = measured.is_some();
                let b = measured.unwrap_or_else(|| s.pre.clone());
                if ok {
                    if let (Ok(ti), Ok(to), Ok(mf)) = (b.get_total_input(), b.get_total_output(), b.min_fee()) {
                        let ti = GVal::of_csl(&ti);
                        let to = GVal::of_csl(&to);
                        let mut short = ti.coin < to.coin + u64::from(mf) as i128;
                        if s.strategy == Strategy::LFMA {
                            for (k, q) in &to.assets {
                                if ti.assets.get(k).cloned().unwrap_or(0) < *q {
                                    short = true;
                                }
                            }
                        }
                        out.count("c08.insufficient_checked", 1);
                        if !short {
                            out.violate(
                                "C08.lf_insufficient",
                                &cls("reported_insufficient_but_all_offered_suffice"),
                                format!("op {}: {:?} said insufficient; with all {} offered: input {} vs output {} + fee {}", s.op, s.strategy, s.offered.len(), ti.describe(), to.describe(), u64::from(mf)),
                            );
                        }
                    }
                }
            }
        }
        return;
    }
    if s.combined {
        // cover / order are judged on plain selections; combined calls are covered by C05/C06
        return;
    }
    // rule 2: added inputs are members of the offered set with the offered amounts
    let offered_set: BTreeSet<usize> = s.offered.iter().cloned().collect();
    let mut added: Vec<usize> = vec![];
    for (k, v) in &post {
        if pre.contains_key(k) {
            continue;
        }
        match world_val(w, k) {
            None => out.violate("C08.member", &cls("added_input_unknown"), format!("op {}: added input {}#{} is not a UTxO of the world", s.op, hex::encode(&k.0[..4]), k.1)),
            Some((i, gv)) => {
                if !offered_set.contains(&i) {
                    out.violate("C08.member", &cls("added_input_not_offered"), format!("op {}: added input world#{} was not offered", s.op, i));
                }
                if &gv != v {
                    out.violate("C08.member", &cls("added_input_amount"), format!("op {}: added input world#{} recorded {} but is {}", s.op, i, v.describe(), gv.describe()));
                }
                added.push(i);
            }
        }
    }
    // rule 3: cover
    let (to, mf) = match (&s.post_total_output, s.post_min_fee) {
        (Some(a), Some(b)) => (a, b),
        _ => return,
    };
    // the ledger sees a *set* of outpoints: an outpoint the builder lists twice pays once
    let mut distinct: exec::InList = vec![];
    for e in &s.post_inputs {
        if distinct.iter().any(|d| d.0 == e.0) {
            out.violate("C08.member", &cls("input_listed_twice"), format!("op {}: the builder lists outpoint {}#{} twice after the selection", s.op, hex::encode(&e.0 .0[..4]), e.0 .1));
        } else {
            distinct.push(e.clone());
        }
    }
    let mut have = match truth_total(w, &distinct) {
        Some(t) => t,
        None => return,
    };
    if let Some(imp) = &s.post_implicit_in {
        have.add(imp);
    }
    have.add(&s.post_mint_pos);
    out.nontrivial = true;
    // under a "not less than" fee request the library's running fee figure may lie up to 4 x fee
    // coefficient below min_fee() (fee field written with 1 instead of 5 bytes on one side of the
    // alignment); the real minimum fee lies in that window too, so the rule demands the lower end
    let fee_min_requested = sc.ops[..s.op].iter().any(|o| matches!(o, Op::FeeMin(_)));
    let slack: i128 = if fee_min_requested { 4 * sc.knobs.fee_a as i128 } else { 0 };
    let need_coin = to.coin + mf as i128 - slack;
    if have.coin < need_coin {
        out.violate(
            "C08.cover.lovelace",
            &cls("under_covered"),
            format!("op {}: {:?} returned Ok but inputs {} (+implicit+mint) < outputs {} + min fee {} (short by {}); added {} of {} offered", s.op, s.strategy, have.coin, to.coin, mf, need_coin - have.coin, added.len(), s.offered.len()),
        );
    }
    if matches!(s.strategy, Strategy::LFMA | Strategy::RIMA) {
        for (k, q) in &to.assets {
            let h = have.assets.get(k).cloned().unwrap_or(0);
            if h < *q {
                out.violate("C08.cover.asset", &cls("asset_under_covered"), format!("op {}: {:?} returned Ok but asset {}.{} have {} < requested {}", s.op, s.strategy, hex::encode(&k.0[..4]), hex::encode(&k.1), h, q));
                break;
            }
        }
    }
    // rule 4: largest-first order and stop
    if matches!(s.strategy, Strategy::LF | Strategy::LFMA) && dup_class.is_empty() {
        check_lf(sc, s, out);
    }
}

fn check_lf(sc: &Scenario, s: &SelectObs, out: &mut Outcome) {
    let w = &sc.world;
    let shortcut = s.events.iter().any(|e| matches!(e, Ev::Probe("sel_shortcut", _)));
    // the statement speaks of the case "more lovelace is needed than the builder already holds"
    let (pti, pto, pmf) = match (&s.pre_total_input, &s.pre_total_output, s.pre_min_fee) {
        (Some(a), Some(b), Some(c)) => (a, b, c),
        _ => return,
    };
    // phases: each asset of total output in canonical order (LFMA only), then lovelace
    let mut phases: Vec<Option<(Vec<u8>, Vec<u8>)>> = vec![];
    if s.strategy == Strategy::LFMA {
        let mut keys: Vec<&(Vec<u8>, Vec<u8>)> = pto.assets.keys().collect();
        keys.sort_by(|a, b| a.0.cmp(&b.0).then(name_key(&a.1).cmp(&name_key(&b.1))));
        for k in keys {
            phases.push(Some(k.clone()));
        }
    }
    phases.push(None);
    // split events into phases
    let mut per_phase: Vec<Vec<usize>> = vec![];
    for e in &s.events {
        match e {
            Ev::Probe("lf_phase", _) => per_phase.push(vec![]),
            Ev::Probe("lf_add", i) => {
                if let Some(l) = per_phase.last_mut() {
                    l.push(*i as usize)
                }
            }
            _ => {}
        }
    }
    if per_phase.len() != phases.len() {
        // the library's phase structure differs from the model's (e.g. an early error): not judged
        out.count("c08.lf_phase_mismatch", 1);
        return;
    }
    // positions refer to the offered list (the shortcut pops the last one)
    let mut remaining: BTreeSet<usize> = (0..s.offered.len()).collect();
    if shortcut {
        remaining.remove(&(s.offered.len() - 1));
    }
    let q_of = |pos: usize, ph: &Option<(Vec<u8>, Vec<u8>)>| -> Option<i128> {
        let g = GVal::of_utxo(w, &w.utxos[s.offered[pos]]);
        match ph {
            None => Some(g.coin),
            Some(k) => g.assets.get(k).cloned(),
        }
    };
    let mut running = pti.clone();
    if shortcut {
        running.add(&GVal::of_utxo(w, &w.utxos[s.offered[s.offered.len() - 1]]));
    }
    let mut last_ada_add: Option<usize> = None;
    let mut ada_adds: Vec<usize> = vec![];
    for (ph, adds) in phases.iter().zip(per_phase.iter()) {
        let mut prev_q: Option<i128> = None;
        for pos in adds {
            if !remaining.contains(pos) {
                out.violate("C08.lf_order", "lf_added_twice", format!("op {}: offered position {} added twice", s.op, pos));
                return;
            }
            let q = match q_of(*pos, ph) {
                Some(q) => q,
                None => {
                    out.violate("C08.lf_order", "lf_irrelevant_added", format!("op {}: offered position {} does not hold the quantity being covered", s.op, pos));
                    return;
                }
            };
            // non-increasing and the largest of what is left
            let max_left = remaining.iter().filter_map(|p| q_of(*p, ph)).max().unwrap_or(0);
            if q < max_left || prev_q.map_or(false, |p| q > p) {
                out.violate(
                    "C08.lf_order",
                    "lf_not_largest_first",
                    format!("op {}: {:?} added quantity {} while {} was still on offer (phase {:?})", s.op, s.strategy, q, max_left, ph.as_ref().map(|k| hex::encode(&k.1))),
                );
                return;
            }
            // asset phases: must not have been covered before this add
            if let Some(k) = ph {
                let have = running.assets.get(k).cloned().unwrap_or(0);
                let need = pto.assets.get(k).cloned().unwrap_or(0);
                if have >= need {
                    out.violate("C08.lf_stop", "lf_added_after_covered_asset", format!("op {}: asset already covered ({} >= {}) but another UTxO was added", s.op, have, need));
                    return;
                }
            }
            prev_q = Some(q);
            remaining.remove(pos);
            running.add(&GVal::of_utxo(w, &w.utxos[s.offered[*pos]]));
            if ph.is_none() {
                last_ada_add = Some(*pos);
                ada_adds.push(*pos);
            }
        }
    }
    out.count("c08.lf_order_checked", 1);
    // stop rule for lovelace: without the last added UTxO the builder is short (library's min_fee as measuring device)
    let pre_short = pti.coin < pto.coin + pmf as i128;
    if let Some(last) = last_ada_add {
        if !pre_short && !shortcut && phases.len() == 1 {
            out.violate("C08.lf_stop", "lf_added_when_not_needed", format!("op {}: builder already covered ({} >= {} + {}) but largest-first added inputs", s.op, pti.coin, pto.coin, pmf));
            return;
        }
        let mut all: Vec<usize> = vec![];
        if shortcut {
            all.push(s.offered.len() - 1);
        }
        for adds in &per_phase {
            for p in adds {
                if *p != last {
                    all.push(*p)
                }
            }
        }
        let extra: Vec<usize> = all.iter().map(|p| s.offered[*p]).collect();
        let b = match with_inputs(sc, s, &extra) {
            Some(b) => b,
            None => return,
        };
        if let (Ok(ti), Ok(to), Ok(mf)) = (b.get_total_input(), b.get_total_output(), b.min_fee()) {
            let short = u64::from(ti.coin()) < u64::from(to.coin()).saturating_add(u64::from(mf));
            out.count("c08.lf_stop_checked", 1);
            if !short {
                out.violate(
                    "C08.lf_stop",
                    "lf_did_not_stop_when_covered",
                    format!("op {}: without the last added UTxO (offered position {}) the builder was already covered: {} >= {} + {}", s.op, last, u64::from(ti.coin()), u64::from(to.coin()), u64::from(mf)),
                );
            }
        }
    }
}

pub fn dup_class_of(sc: &Scenario, s: &SelectObs) -> String {
    let w = &sc.world;
    let mut seen = BTreeSet::new();
    let mut dup = false;
    for i in &s.offered {
        if !seen.insert(w.outpoint(*i)) {
            dup = true;
        }
    }
    let pre: BTreeSet<(Vec<u8>, u64)> = s.pre_inputs.iter().map(|x| x.0.clone()).collect();
    let overlap = s.offered.iter().any(|i| pre.contains(&w.outpoint(*i)));
    match (dup, overlap) {
        (false, false) => String::new(),
        (true, false) => "dup_in_offered".to_string(),
        (false, true) => "offered_overlaps_builder_inputs".to_string(),
        (true, true) => "dup_and_overlap".to_string(),
    }
}

pub fn evaluate(sc: &Scenario) -> Outcome {
    let h = exec::run(sc);
    let mut out = Outcome::default();
    out.steps = h.steps + h.draws.len() as u64;
    out.digest = h.digest;
    for (k, v) in &h.probes {
        out.count(probe_key(k), *v);
    }
    for r in &h.results {
        out.count(
            match r.class() {
                "ok" => "op.ok",
                "err" => "op.err",
                "panic" => "op.panic",
                _ => "op.skipped",
            },
            1,
        );
    }
    let mut sig = 0u64;
    let mut n_sel = 0;
    for s in &h.selects {
        let dc = dup_class_of(sc, s);
        if !dc.is_empty() {
            out.count("fault.F3_dup_or_overlap_offer", 1);
        }
        if n_sel > 0 {
            out.count("fault.F4_retry_after_result", 1);
            if !h.selects[n_sel - 1].res.is_ok() {
                out.count("fault.F4_retry_after_failed_selection", 1);
            }
        }
        n_sel += 1;
        check_select(sc, s, &mut out, &dc);
        out.count(
            match (&s.res, s.strategy) {
                (Res::Ok, Strategy::LF) => "c08.ok.LF",
                (Res::Ok, Strategy::RI) => "c08.ok.RI",
                (Res::Ok, Strategy::LFMA) => "c08.ok.LFMA",
                (Res::Ok, Strategy::RIMA) => "c08.ok.RIMA",
                (Res::Err(_), _) => "c08.err",
                _ => "c08.other",
            },
            1,
        );
        let swap = s.events.iter().filter(|e| matches!(e, Ev::Probe("ri_improve_swap", _))).count();
        let topup = s.events.iter().filter(|e| matches!(e, Ev::Probe("ri_fee_topup", _))).count();
        if swap > 0 && topup > 0 {
            out.count("c08.swap_then_topup", 1);
        }
        let draws = s.events.iter().filter(|e| matches!(e, Ev::Draw(..))).count();
        if draws > 0 {
            out.count("fault.S1_rng_schedule_runs", 1);
            out.count("fault.S1_rng_draws_answered", draws as u64);
        }
        let bucket = |n: usize| match n {
            0 => 0u64,
            1 => 1,
            2..=3 => 2,
            4..=8 => 3,
            9..=23 => 4,
            _ => 5,
        };
        let added = s.post_inputs.len().saturating_sub(s.pre_inputs.len());
        let identical_outputs = {
            let outs: Vec<&Op> = sc.ops.iter().filter(|o| matches!(o, Op::Out(_))).collect();
            outs.iter().enumerate().any(|(i, a)| outs.iter().skip(i + 1).any(|b| a == b))
        };
        for x in [
            s.strategy as u64,
            bucket(s.pre_inputs.len()),
            bucket(s.offered.len()),
            bucket(added),
            s.res.is_ok() as u64,
            (swap > 0) as u64,
            (topup > 0) as u64,
            bucket(s.events.iter().filter(|e| matches!(e, Ev::Probe("lf_add", _))).count()),
            s.events.iter().any(|e| matches!(e, Ev::Probe("sel_shortcut", _))) as u64,
            identical_outputs as u64,
            s.pre_total_output.as_ref().map_or(0, |t| bucket(t.assets.len())),
            dc.len() as u64,
            sc.rng.sampler as u64,
        ] {
            sig = mix(sig, x);
        }
    }
    out.sig = sig;
    out
}

pub fn probe_key(k: &str) -> &'static str {
    match k {
        "sel_shortcut" => "probe.sel_shortcut",
        "ri_fee_topup" => "probe.ri_fee_topup",
        "lf_add" => "probe.lf_add",
        "lf_phase" => "probe.lf_phase",
        "ri_phase" => "probe.ri_phase",
        "ri_improve_swap" => "probe.ri_improve_swap",
        "ri_select" => "probe.ri_select",
        "change_fallback_input" => "probe.change_fallback_input",
        "change_nft_outputs" => "probe.change_nft_outputs",
        "change_pure_extra" => "probe.change_pure_extra",
        "change_last_topup" => "probe.change_last_topup",
        "change_burn" => "probe.change_burn",
        "change_single_ada" => "probe.change_single_ada",
        "change_exact" => "probe.change_exact",
        "sendall_new_output" => "probe.sendall_new_output",
        "sendall_new_tx" => "probe.sendall_new_tx",
        _ => "probe.other",
    }
}

impl Prop for C08 {
    type Case = Scenario;
    fn id(&self) -> &'static str {
        "C08"
    }
    fn runs(&self, tier: Tier) -> u64 {
        match tier {
            Tier::Quick => 200_000,
            Tier::Thorough => 6_000_000,
        }
    }
    fn rule_text(&self) -> String {
        "one run = one seeded wallet session (pre-state inputs/outputs/mint/withdrawals/deposits in seeded order, then add_inputs_from with one of the 4 strategies, optionally retried) under one RNG schedule (8 samplers) — non-trivial = a selection returned Ok and its cover rule was evaluated against ground-truth UTxO values; distinct = distinct state signature (strategy x pre-inputs x offered x added buckets x swap/top-up/shortcut probes x identical outputs x requested assets x fault class x sampler)".into()
    }
    fn generate(&self, seed: u64, tier: Tier) -> Scenario {
        // one run in six is a full wallet session (script inputs, mints, deposits, collateral, governance as
        // pre-state) cut to end in a plain selection, so that the selection rules also see rich pre-states
        if Rng::stream(seed, 11).chance(1, 6) {
            let mut p = crate::wallet::Profile::base("c08w");
            p.tight = 500;
            p.assets = 600;
            p.collateral_helper = 0;
            p.adaptive = 0;
            let mut sc = crate::wallet::generate(seed, tier, &p);
            // turn combined balancing calls into a plain selection followed by the change call
            let mut ops = vec![];
            for op in sc.ops.drain(..) {
                match op {
                    Op::SelectAndChange(st, ids, ch) => {
                        ops.push(Op::Select(st, ids));
                        ops.push(Op::Change(ChangeSpec { script_ref: None, ..ch }));
                    }
                    o => ops.push(o),
                }
            }
            sc.ops = ops;
            return sc;
        }
        generate(seed, tier)
    }
    fn execute(&self, case: &Scenario) -> Outcome {
        evaluate(case)
    }
    fn pin(&self, case: &Scenario) -> Scenario {
        sess::pin(case)
    }
    fn shrink_candidates(&self, case: &Scenario) -> Vec<Scenario> {
        sess::shrink_candidates(case)
    }
    fn size(&self, case: &Scenario) -> usize {
        sess::size(case)
    }
    fn components(&self) -> (Vec<&'static str>, Vec<&'static str>) {
        (
            vec!["cardano-serialization-lib TransactionBuilder::add_inputs_from and everything below it (real code, feature verif-hooks)", "TransactionBuilder::min_fee / get_total_output / get_implicit_input as declared measuring devices"],
            vec!["RNG answers (simulator samplers behind the H1 seam)", "hash keys (simulator stream behind the H2 seam)", "ground-truth UTxO set (world)"],
        )
    }
    fn assumptions(&self) -> Vec<String> {
        vec![
            "offered UTxOs are truthful (amounts as in the world) and ledger-valid (carry at least roughly their own minimum ADA)".into(),
            "TransactionBuilder::min_fee is used as the measuring device for 'covers the minimum fee' and for the largest-first stop rule; it is checked against the independent fee formula by C06".into(),
            "duplicate offers (the same UTxO twice, or a UTxO that is already an input) are a separate fault class, triaged separately".into(),
        ]
    }
    fn fault_kinds(&self) -> Vec<&'static str> {
        vec!["S1 RNG schedule", "F3 duplicate/overlapping offer", "F4 failed operation then continue (retry)", "K9 knob randomisation"]
    }
}

//! Builder-session properties: one generator (wallet sessions) with a profile per property and
//! one rule set per property. Each check evaluates only its own property's rules.
use crate::cbor::{self, Kind, Node};
use crate::exec::{BuiltObs, History, Res};
use crate::oracle::{self, Ctx, TxView};
use crate::prng::mix;
use crate::props::c08::probe_key;
use crate::runner::{Outcome, Prop, Tier};
use crate::scn::*;
use crate::sess;
use crate::wallet::{self, Profile, Signed};
use crate::world::*;
use cardano_serialization_lib as csl;
use num_bigint::BigInt;
use std::collections::{BTreeMap, BTreeSet};

pub type Signeds = Vec<Option<Result<Signed, String>>>;
pub type EvalFn = fn(&Scenario, &History, &Signeds, &mut Outcome);

pub struct BuilderProp {
    pub id: &'static str,
    pub profile: fn() -> Profile,
    pub eval: EvalFn,
    pub runs_quick: u64,
    pub runs_thorough: u64,
    pub text: &'static str,
    pub extra_assumptions: &'static [&'static str],
}

/// wrap body bytes into a transaction so that the body rules can run on a body-only build
pub fn wrap_body(body: &[u8]) -> Vec<u8> {
    let mut v = vec![0x84];
    v.extend_from_slice(body);
    v.extend_from_slice(&[0xa0, 0xf5, 0xf6]);
    v
}

pub fn tx_bytes_of(b: &BuiltObs) -> Vec<u8> {
    if b.full {
        b.bytes.clone()
    } else {
        wrap_body(&b.bytes)
    }
}

fn head_class(n: usize) -> u64 {
    match n {
        0 => 0,
        1 => 1,
        2..=23 => 2,
        24..=255 => 3,
        _ => 4,
    }
}
fn width_class(v: u64) -> u64 {
    if v < 24 {
        0
    } else if v <= 0xff {
        1
    } else if v <= 0xffff {
        2
    } else if v <= 0xffff_ffff {
        3
    } else {
        4
    }
}

/// common bookkeeping: counters, fault kinds fired, state signature
pub fn common(sc: &Scenario, h: &History, signed: &Signeds, out: &mut Outcome) {
    out.steps = h.steps + h.draws.len() as u64;
    out.digest = h.digest;
    for (k, v) in &h.probes {
        out.count(probe_key(k), *v);
    }
    let mut sig = 0u64;
    let mut balancing_seen = 0;
    let mut prev_balancing_failed = false;
    for (i, r) in h.results.iter().enumerate() {
        out.count(
            match r.class() {
                "ok" => "op.ok",
                "err" => "op.err",
                "panic" => "op.panic",
                _ => "op.skipped",
            },
            1,
        );
        match &sc.ops[i] {
            Op::Observe if r.is_ok() => out.count("hist.observer_calls", 1),
            Op::ForkClone => out.count("hist.clone_handovers", 1),
            Op::SetMintLegacy(false) if r.is_ok() => out.count("hist.old_mint_setter_calls", 1),
            Op::SetMintLegacy(true) if matches!(r, crate::exec::Res::Err(_)) => out.count("fault.F4_old_mint_setter_refused", 1),
            Op::RemoveCerts | Op::RemoveWithdrawals | Op::RemoveMint if r.is_ok() => out.count("hist.collection_removals", 1),
            Op::HandOverAgain(_) if h.results.get(i).map_or(false, |r| r.is_ok()) => out.count("fault.F6_unchanged_collection_builders_handed_over_again", 1),
            Op::Out(o) if o.form != 0 && r.is_ok() => out.count("hist.outputs_decoded_from_bytes", 1),
            _ => {}
        }
        let is_bal = matches!(sc.ops[i], Op::Change(_) | Op::SelectAndChange(..) | Op::SelectChangeCollateral(..) | Op::Select(..));
        if is_bal {
            if balancing_seen > 0 && prev_balancing_failed {
                out.count("fault.F4_continue_after_failed_balancing", 1);
            }
            balancing_seen += 1;
            prev_balancing_failed = !r.is_ok();
            let d = match &sc.ops[i] {
                Op::Change(_) => 1u64,
                Op::SelectAndChange(..) => 2,
                Op::SelectChangeCollateral(..) => 3,
                _ => 4,
            };
            sig = mix(sig, d * 2 + r.is_ok() as u64);
        }
        if let Res::Err(_) = r {
            if !matches!(sc.ops[i], Op::Build | Op::BuildTx) && i + 1 < sc.ops.len() {
                out.count("fault.F4_failed_op_then_continue", 1);
            }
        }
        if let Res::Panic(_) = r {
            out.count("panics_observed", 1);
        }
    }
    if sc.alt_values != 0 {
        out.count("fault.F8_sessions_with_values_decoded_from_foreign_bytes", 1);
    }
    if sc.world.decoded_scripts {
        out.count("fault.F8_sessions_with_scripts_decoded_from_bytes", 1);
    }
    {
        // the same entry handed over again (certificate, withdrawal account, input, reference input, mint asset)
        let mut seen: BTreeSet<String> = BTreeSet::new();
        for o in &sc.ops {
            let key = match o {
                Op::Cert(c, _) => Some(format!("cert {:?}", c)),
                Op::Wdr(c, _, _) => Some(format!("wdr {:?}", c)),
                Op::InUtxo(u) | Op::InLegacy(u) => Some(format!("in {}", u)),
                Op::RefIn(u, _) => Some(format!("ref {}", u)),
                Op::Mint { wit, name, .. } => Some(format!("mint {} {:?}", wit.script, name)),
                Op::Propose(p, _) => Some(format!("prop {:?}", p)),
                _ => None,
            };
            if let Some(k) = key {
                if !seen.insert(k) {
                    out.count("fault.F6_entry_handed_over_again", 1);
                }
            }
        }
    }
    if !h.draws.is_empty() {
        out.count("fault.S1_rng_schedule_runs", 1);
        out.count("fault.S1_rng_draws_answered", h.draws.len() as u64);
    }
    out.count("fault.S2_hash_keys_issued", h.hash_keys);
    let d = Knobs::default();
    if sc.knobs.fee_a != d.fee_a || sc.knobs.cpb != d.cpb || sc.knobs.max_value_size != d.max_value_size || sc.knobs.max_tx_size != d.max_tx_size {
        out.count("fault.K9_knobs_varied_runs", 1);
    }
    // signature from the first built transaction
    for (bi, b) in h.built.iter().enumerate() {
        out.count(if b.full { "built.tx" } else { "built.body" }, 1);
        let txb = tx_bytes_of(b);
        if let Ok(v) = TxView::parse(&txb) {
            let body = v.body();
            let mut keys_present = 0u64;
            if let Some(m) = body.as_map() {
                for (k, _) in m {
                    if let Some(k) = k.as_u64() {
                        keys_present |= 1 << k.min(40);
                    }
                }
            }
            let mut ws_present = 0u64;
            if let Some(m) = v.ws().as_map() {
                for (k, _) in m {
                    if let Some(k) = k.as_u64() {
                        ws_present |= 1 << k.min(10);
                    }
                }
            }
            let mut cert_tags = 0u64;
            for c in v.certs().unwrap_or_default() {
                if let Some(t) = c.idx(0).and_then(|x| x.as_u64()) {
                    cert_tags |= 1 << t.min(30);
                }
            }
            let nin = v.inputs_of(0).map(|x| x.len()).unwrap_or(0);
            let nout = v.outputs().map(|x| x.len()).unwrap_or(0);
            let on_edge = |n: usize| n == 23 || n == 24;
            if on_edge(nin) || on_edge(nout) || on_edge(v.certs().map(|x| x.len()).unwrap_or(0)) {
                out.count("built.collection_on_23_24_edge", 1);
            }
            for x in [keys_present, ws_present, cert_tags, head_class(nin), head_class(nout), width_class(v.fee().unwrap_or(0)), !v.aux().is_null() as u64] {
                sig = mix(sig, x);
            }
            if let Some(Some(Ok(s))) = signed.get(bi) {
                sig = mix(sig, head_class(s.n_vkeys) * 8 + head_class(s.n_bootstrap));
            }
        }
    }
    for k in ["change_nft_outputs", "change_pure_extra", "change_burn", "change_last_topup", "change_single_ada", "change_exact", "change_fallback_input", "ri_improve_swap", "ri_fee_topup", "sel_shortcut"] {
        sig = mix(sig, h.probes.iter().any(|(p, _)| *p == k) as u64);
    }
    out.sig = sig;
}

fn balanced(b: &BuiltObs) -> bool {
    b.balanced_at.is_some() && (b.full || !b.dirty_since_balance)
}

// ------------------------------------------------------------------ C05

pub fn eval_c05(sc: &Scenario, h: &History, _signed: &Signeds, out: &mut Outcome) {
    let cx = Ctx { w: &sc.world, k: &sc.knobs, undeclared_ref_scripts: Default::default() };
    for b in &h.built {
        if !balanced(b) {
            out.count("c05.skipped_not_balanced", 1);
            continue;
        }
        let txb = tx_bytes_of(b);
        let v = match TxView::parse(&txb) {
            Ok(v) => v,
            Err(e) => {
                out.count("c05.unparsable", 1);
                let _ = e;
                continue;
            }
        };
        out.nontrivial = true;
        out.count("c05.evaluated", 1);
        if let Err(e) = oracle::preservation(&v, &cx) {
            let class = if e.starts_with("lovelace") {
                "lovelace_imbalance"
            } else if e.starts_with("asset") {
                "asset_imbalance"
            } else {
                "oracle_could_not_evaluate"
            };
            if class == "oracle_could_not_evaluate" {
                out.count("c05.oracle_error", 1);
                continue;
            }
            out.violate("C05.preservation", class, format!("op {}: {}", b.op, e));
        }
    }
}

// ------------------------------------------------------------------ C06

fn fee_request_before(sc: &Scenario, h: &History, upto: usize) -> (Option<u64>, Option<u64>) {
    // the latest successful request wins
    let mut min = None;
    let mut exact = None;
    for i in 0..upto {
        if !h.results[i].is_ok() {
            continue;
        }
        match &sc.ops[i] {
            Op::FeeMin(m) => {
                min = Some(*m);
                exact = None;
            }
            Op::FeeExact(x) => {
                exact = Some(*x);
                min = None;
            }
            _ => {}
        }
    }
    (min, exact)
}

/// reference-script UTxOs listed only through the size-less `add_reference_input`
pub fn undeclared_ref_scripts(sc: &Scenario, h: &History, upto: usize) -> BTreeSet<(Vec<u8>, u64)> {
    let mut plain: BTreeSet<usize> = BTreeSet::new();
    let mut declared: BTreeSet<usize> = BTreeSet::new();
    // a removal (or an old whole-collection setter) forgets the script sources declared before it
    let last_of = |f: &dyn Fn(&Op) -> bool| -> usize { sc.ops.iter().enumerate().take(upto).filter(|(_, o)| f(o)).map(|(i, _)| i + 1).last().unwrap_or(0) };
    let certs_from = last_of(&|o| matches!(o, Op::RemoveCerts | Op::SetCertsLegacy));
    let wdrs_from = last_of(&|o| matches!(o, Op::RemoveWithdrawals | Op::SetWithdrawalsLegacy));
    let mint_from = last_of(&|o| matches!(o, Op::RemoveMint));
    let mut seen_mint: BTreeSet<ScriptId> = BTreeSet::new();
    let mut seen_voter: BTreeSet<String> = BTreeSet::new();
    for (i, op) in sc.ops.iter().enumerate() {
        if i >= upto {
            continue;
        }
        if !h.results[i].is_ok() {
            // mint-and-output refused by its output half: the mint half (and its script source) is in
            if let (Op::MintAndOut { script, .. }, Res::Err(e)) = (op, &h.results[i]) {
                if i >= mint_from && (e.contains("minimum UTXO value") || e.contains("Maximum value size")) {
                    seen_mint.insert(*script);
                }
            }
            continue;
        }
        match op {
            Op::Cert(..) if i < certs_from => continue,
            Op::Wdr(..) if i < wdrs_from => continue,
            Op::Mint { .. } | Op::MintAndOut { .. } | Op::MintLegacy { .. } if i < mint_from => continue,
            _ => {}
        }
        let wit = match op {
            Op::RefIn(u, false) => {
                plain.insert(*u);
                None
            }
            Op::RefIn(u, true) => {
                declared.insert(*u);
                None
            }
            // (the mistaken attachment of a correction history is replaced at once: it declares nothing; an input
            // handed over again replaces the earlier hand-over and what that one declared)
            Op::InScript { utxo, wit, .. } => {
                let later = sc.ops.iter().enumerate().take(upto).skip(i + 1).any(|(j, o)| matches!(o, Op::InScript { utxo: u2, .. } if u2 == utxo) && h.results.get(j).map_or(false, |r| r.is_ok()));
                if later {
                    None
                } else {
                    Some(wit)
                }
            }
            Op::Cert(_, Some(w)) | Op::Wdr(_, _, Some(w)) | Op::Propose(_, Some(w)) => Some(w),
            // the mint builder keeps one script source per policy and the voting builder one per
            // voter: only the source of the first successful call is kept by the library
            Op::Mint { wit, .. } => {
                if seen_mint.insert(wit.script) {
                    Some(wit)
                } else {
                    None
                }
            }
            Op::MintAndOut { script, .. } | Op::MintLegacy { script, .. } => {
                seen_mint.insert(*script);
                None
            }
            Op::Vote { wit: Some(w), voter, .. } => {
                if seen_voter.insert(format!("{:?}", voter)) {
                    Some(w)
                } else {
                    None
                }
            }
            _ => None,
        };
        if let Some(w) = wit {
            if let ScriptUse::Ref(u) = &w.how {
                declared.insert(*u);
            }
        }
    }
    plain.difference(&declared).filter(|u| **u < sc.world.utxos.len()).map(|u| sc.world.outpoint(*u)).collect()
}

pub fn eval_c06(sc: &Scenario, h: &History, signed: &Signeds, out: &mut Outcome) {
    for (bi, b) in h.built.iter().enumerate() {
        let cx = Ctx { w: &sc.world, k: &sc.knobs, undeclared_ref_scripts: undeclared_ref_scripts(sc, h, b.op) };
        if !b.full || b.balanced_at.is_none() {
            continue;
        }
        // a transaction handed out without the library's own final validation is judged only when nothing
        // happened between the successful balancing and the build (the fee is the one the builder set)
        if b.unsafe_build && b.dirty_since_balance {
            out.count("c06.unsafe_build_after_later_changes_not_judged", 1);
            continue;
        }
        if b.unsafe_build && fee_request_before(sc, h, b.op).1.is_some() {
            // the fee is the caller's own (exact request): the unvalidated build hands it out as it is
            out.count("c06.unsafe_build_with_caller_fixed_fee_not_judged", 1);
            continue;
        }
        if b.unsafe_build {
            out.count("c06.unsafe_builds_judged", 1);
        }
        let s = match signed.get(bi) {
            Some(Some(Ok(s))) => s,
            Some(Some(Err(e))) => {
                out.count("c06.sign_failed", 1);
                let _ = e;
                continue;
            }
            _ => continue,
        };
        let v = match TxView::parse(&s.bytes) {
            Ok(v) => v,
            Err(_) => {
                out.count("c06.unparsable", 1);
                continue;
            }
        };
        let fee = match v.fee() {
            Ok(f) => f,
            Err(_) => continue,
        };
        let need = match oracle::min_fee(&v, &cx) {
            Ok(n) => n,
            Err(_) => {
                out.count("c06.oracle_error", 1);
                continue;
            }
        };
        out.nontrivial = true;
        out.count("c06.evaluated", 1);
        if !s.body_preserved {
            out.count("c06.body_changed_by_signing", 1);
        }
        if BigInt::from(fee) < need {
            let class = if s.n_bootstrap > 0 && !s.required.byron.is_empty() { "fee_below_minimum/with_bootstrap_witness" } else { "fee_below_minimum" };
            out.violate(
                "C06.min_fee",
                class,
                format!("op {}: fee {} < minimum {} for the signed transaction of {} bytes ({} vkey + {} bootstrap witnesses)", b.op, fee, need, s.bytes.len(), s.n_vkeys, s.n_bootstrap),
            );
        }
        // the request in force when the transaction is built: a validated build honours it or fails, also when the
        // request came after the fee was fixed (an unvalidated build hands out what the balancing left)
        let (min, exact) = fee_request_before(sc, h, if b.unsafe_build { b.balanced_at.unwrap() + 1 } else { b.op });
        if let Some(m) = min {
            out.count("c06.fee_min_checked", 1);
            if fee < m {
                out.violate("C06.fee_request_min", "requested_minimum_not_honoured", format!("op {}: fee {} < requested minimum {}", b.op, fee, m));
            }
        }
        if let Some(x) = exact {
            out.count("c06.fee_exact_checked", 1);
            if fee != x {
                out.violate("C06.fee_request_exact", "exact_fee_not_used", format!("op {}: fee {} != requested exact fee {}", b.op, fee, x));
            }
        }
    }
}

// ------------------------------------------------------------------ C07

fn head_len(v: u64) -> usize {
    if v < 24 {
        1
    } else if v <= 0xff {
        2
    } else if v <= 0xffff {
        3
    } else if v <= 0xffff_ffff {
        5
    } else {
        9
    }
}

fn coin_node(out_node: &Node) -> Option<&Node> {
    let val = match &out_node.kind {
        Kind::Array(a) => a.get(1)?,
        Kind::Map(_) => out_node.get(1)?,
        _ => return None,
    };
    match &val.kind {
        Kind::UInt(_) => Some(val),
        Kind::Array(a) => a.get(0),
        _ => None,
    }
}

/// the stand-alone function on an output a session hands to the builder (admitted or refused)
fn min_ada_fn_clause(k: &Knobs, lo: &csl::TransactionOutput, what: &str, out: &mut Outcome) {
    let c = match csl::min_ada_for_output(lo, &csl::DataCost::new_coins_per_byte(&csl::BigNum::from(k.cpb))) {
        Ok(c) => u64::from(c),
        Err(_) => return,
    };
    let bytes = lo.to_bytes();
    let n = match cbor::parse(&bytes) {
        Ok(n) => n,
        Err(_) => return,
    };
    let cn = match coin_node(&n) {
        Some(c) => c,
        None => return,
    };
    let coin = match cn.as_u64() {
        Some(c) => c,
        None => return,
    };
    let size = bytes.len();
    let m = c.max(coin);
    let size_m = size - cn.len() + head_len(m);
    let size_w = size - cn.len() + 9;
    out.count("c07.min_ada_fn_checked", 1);
    if (m as u128) < k.cpb as u128 * (160 + size_m as u128) {
        out.violate("C07.min_ada_fn", "result_too_small", format!("{}: min_ada_for_output = {}, coin {}: max = {} < {} x (160 + {})", what, c, coin, m, k.cpb, size_m));
    }
    if (c as u128) > k.cpb as u128 * (160 + size_w as u128) {
        out.violate("C07.min_ada_fn", "result_above_widest_bound", format!("{}: min_ada_for_output = {} > {} x (160 + {})", what, c, k.cpb, size_w));
    }
}

pub fn eval_c07(sc: &Scenario, h: &History, signed: &Signeds, out: &mut Outcome) {
    let k = &sc.knobs;
    // a checked collateral call that reports success has accepted (or created) the return the builder now holds,
    // whatever was in place before the call
    for e in &h.coll_events {
        if !e.res.is_ok() {
            continue;
        }
        if let Some(ret) = &e.after.0 {
            let rb = ret.to_bytes();
            if let Ok(n) = crate::cbor::parse(&rb) {
                if let Ok(o) = oracle::output_of(&n) {
                    out.nontrivial = true;
                    out.count("c07.collateral_return_checked_after_call", 1);
                    if let Err(e2) = oracle::output_rules(&rb, &o, k) {
                        out.violate("C07.collateral_return", "accepted_return_below_min_ada_or_too_large", format!("op {} ({}): reported success, the builder holds a collateral return with: {}", e.op, e.kind, e2));
                    }
                }
            }
        }
    }
    // outputs the session hands to the builder, as given and with an empty coin (what the output
    // builder's "minimum required coin" path starts from)
    {
        let sess = crate::exec::Session::new(sc);
        for (i, op) in sc.ops.iter().enumerate() {
            if let Op::Out(o) = op {
                if matches!(h.results.get(i), Some(crate::exec::Res::Skipped(_)) | None) {
                    continue;
                }
                let mut o2 = o.clone();
                o2.min_coin = false;
                if let Ok(lo) = sess.output(&o2) {
                    out.nontrivial = true;
                    min_ada_fn_clause(k, &lo, &format!("op {} requested output", i), out);
                }
                o2.coin = 0;
                if let Ok(lo) = sess.output(&o2) {
                    min_ada_fn_clause(k, &lo, &format!("op {} requested output with coin 0", i), out);
                }
                // ... and carrying a coin that sits exactly on the last value of a CBOR width class
                for edge in [23u64, 255, 65535, 4294967295] {
                    if (i + edge as usize) % 3 == 0 {
                        let mut o4 = o.clone();
                        o4.min_coin = false;
                        o4.form = 0;
                        o4.coin = edge;
                        if let Ok(lo) = sess.output(&o4) {
                            min_ada_fn_clause(k, &lo, &format!("op {} requested output with coin {}", i, edge), out);
                        }
                    }
                }
                // the output builder's "minimum required coin" helper is the same function behind another door:
                // the output it returns carries at least the bound for its own size
                if o.min_coin {
                    if let Ok(lo) = sess.output(o) {
                        let b = lo.to_bytes();
                        if let Ok(n) = cbor::parse(&b) {
                            if let Some(coin) = coin_node(&n).and_then(|c| c.as_u64()) {
                                out.count("c07.helper_outputs_checked", 1);
                                if (coin as u128) < k.cpb as u128 * (160 + b.len() as u128) {
                                    out.violate("C07.min_ada_fn", "helper_output_below_bound", format!("op {}: the output builder's minimum-coin helper returned coin {} for an output of {} bytes: below {} x (160 + {})", i, coin, b.len(), k.cpb, b.len()));
                                }
                            }
                        }
                    }
                }
                // the function clause speaks of *every* output: the same output with one more listed
                // asset of quantity zero (never handed to the builder, only measured)
                if !o.assets.is_empty() && i % 2 == 0 {
                    let mut o3 = o.clone();
                    o3.min_coin = false;
                    o3.form = 0;
                    let a0 = o3.assets[0].clone();
                    o3.assets.push(AssetQ { p: a0.p, n: b"zeroqty".to_vec(), q: 0 });
                    if let Ok(lo) = sess.output(&o3) {
                        out.count("c07.min_ada_fn_with_zero_quantity_asset", 1);
                        min_ada_fn_clause(k, &lo, &format!("op {} requested output plus a zero-quantity asset", i), out);
                    }
                }
            }
        }
    }
    for (bi, b) in h.built.iter().enumerate() {
        if b.balanced_at.is_none() && b.full {
            continue;
        }
        let txb = tx_bytes_of(b);
        let v = match TxView::parse(&txb) {
            Ok(v) => v,
            Err(_) => continue,
        };
        let outs = match v.outputs() {
            Ok(o) => o,
            Err(_) => continue,
        };
        out.nontrivial = true;
        out.count("c07.evaluated", 1);
        let out_nodes: Vec<&Node> = v.body().get(1).and_then(|n| n.as_array()).map(|a| a.iter().collect()).unwrap_or_default();
        let lib_outs = b.body.outputs();
        for (i, o) in outs.iter().enumerate() {
            out.count("c07.outputs_checked", 1);
            if let Err(e) = oracle::output_rules(&txb, o, k) {
                let class = if e.starts_with("min-ADA") { "output_below_min_ada" } else { "value_too_large" };
                out.violate("C07.output", class, format!("op {}: output {} of {}: {}", b.op, i, outs.len(), e));
            }
            // the stand-alone function on the observed output
            if i < lib_outs.len() {
                let lo = lib_outs.get(i);
                if let Ok(c) = csl::min_ada_for_output(&lo, &csl::DataCost::new_coins_per_byte(&csl::BigNum::from(k.cpb))) {
                    let c = u64::from(c);
                    if let Some(cn) = coin_node(out_nodes[i]) {
                        let size = o.span.1 - o.span.0;
                        let coin = o.value.coin as u64;
                        let m = c.max(coin);
                        let size_m = size - cn.len() + head_len(m);
                        let size_w = size - cn.len() + 9;
                        out.count("c07.min_ada_fn_checked", 1);
                        if (m as u128) < k.cpb as u128 * (160 + size_m as u128) {
                            out.violate("C07.min_ada_fn", "result_too_small", format!("op {}: output {}: min_ada_for_output = {}, coin {}: max = {} < {} x (160 + {})", b.op, i, c, coin, m, k.cpb, size_m));
                        }
                        if (c as u128) > k.cpb as u128 * (160 + size_w as u128) {
                            out.violate("C07.min_ada_fn", "result_above_widest_bound", format!("op {}: output {}: min_ada_for_output = {} > {} x (160 + {})", b.op, i, c, k.cpb, size_w));
                        }
                    }
                }
            }
        }
        // collateral return created by a helper
        if b.coll_set_at.is_some() && !b.coll_dirty {
            if let Some(n) = v.body().get(16) {
                if let Ok(o) = oracle::output_of(n) {
                    out.count("c07.collateral_return_checked", 1);
                    if let Err(e) = oracle::output_rules(&txb, &o, k) {
                        out.violate("C07.collateral_return", "collateral_return_below_min_ada_or_too_large", format!("op {}: collateral return: {}", b.op, e));
                    }
                }
            }
        }
        // transaction size (signed)
        if let Some(Some(Ok(s))) = signed.get(bi) {
            out.count("c07.tx_size_checked", 1);
            if s.bytes.len() > k.max_tx_size as usize {
                out.violate("C07.tx_size", "transaction_too_large", format!("op {}: signed transaction {} bytes > max_tx_size {}", b.op, s.bytes.len(), k.max_tx_size));
            }
        }
    }
}

// ------------------------------------------------------------------ Prop impl

impl Prop for BuilderProp {
    type Case = Scenario;
    fn id(&self) -> &'static str {
        self.id
    }
    fn runs(&self, tier: Tier) -> u64 {
        match tier {
            Tier::Quick => self.runs_quick,
            Tier::Thorough => self.runs_thorough,
        }
    }
    fn rule_text(&self) -> String {
        self.text.to_string()
    }
    fn generate(&self, seed: u64, tier: Tier) -> Scenario {
        wallet::generate(seed, tier, &(self.profile)())
    }
    fn execute(&self, case: &Scenario) -> Outcome {
        let (h, signed) = wallet::run_and_sign(case);
        let mut out = Outcome::default();
        common(case, &h, &signed, &mut out);
        (self.eval)(case, &h, &signed, &mut out);
        out
    }
    fn pin(&self, case: &Scenario) -> Scenario {
        sess::pin(case)
    }
    fn shrink_candidates(&self, case: &Scenario) -> Vec<Scenario> {
        sess::shrink_candidates(case)
    }
    fn size(&self, case: &Scenario) -> usize {
        sess::size(case)
    }
    fn components(&self) -> (Vec<&'static str>, Vec<&'static str>) {
        (
            vec![
                "cardano-serialization-lib: TransactionBuilder and all sub-builders, serializers, fee/min-ADA code (real code, feature verif-hooks)",
                "library signing helpers make_vkey_witness / make_icarus_bootstrap_witness (results verified with cryptoxide)",
            ],
            vec![
                "RNG answers and hash keys (simulator, seams H1/H2)",
                "reference node: harness CBOR reader, Conway shapes, UTXO/UTXOW rules in big integers (oracle.rs)",
                "ground-truth UTxO set, keys and scripts (world)",
            ],
        )
    }
    fn assumptions(&self) -> Vec<String> {
        let mut v: Vec<String> = vec![
            "world UTxOs are truthful; reference-script sizes, hashes and languages are declared truthfully by the history".into(),
            "pool registrations are first registrations; stake credentials are in the state the certificate needs".into(),
            "the harness's reading of the Conway rules (notes/ORACLE_SPEC.md)".into(),
            "sampling, not enumeration".into(),
        ];
        v.extend(self.extra_assumptions.iter().map(|s| s.to_string()));
        v
    }
    fn fault_kinds(&self) -> Vec<&'static str> {
        vec!["S1 RNG schedule", "S2 hash-order schedule", "F4 failed operation then continue", "F6 repeated hand-over / replacement of an entry", "F8 values decoded from another producer's encoding", "K9 knob randomisation"]
    }
}

fn profile_c05() -> Profile {
    let mut p = Profile::base("c05");
    p.certs = 450;
    p.withdrawals = 300;
    p.mint = 350;
    p.burn = 400;
    p.proposals = 150;
    p.many_assets = 200;
    p.misc_fields = 250;
    p.tight = 400;
    p.plutus = 60;
    p
}
fn profile_c06() -> Profile {
    let mut p = Profile::base("c06");
    p.width_edges = 350;
    p.byron = 250;
    p.native_inputs = 250;
    p.plutus = 250;
    p.ref_scripts = 500;
    p.req_signers = 300;
    p.fee_requests = 200;
    p.votes = 150;
    p.post_balance_noise = 100;
    p.unsafe_builds = 200;
    p.many_assets = 200;
    p
}
fn profile_c07() -> Profile {
    let mut p = Profile::base("c07");
    p.vary_knobs = 800;
    p.many_assets = 350;
    p.assets = 700;
    p.out_features = 400;
    p.byron = 250;
    p.width_edges = 300;
    p.plutus = 100;
    p.whale = 350;
    p.boundary_outputs = 150;
    p.fine_value_limit = 350;
    p.fine_cpb = 250;
    p.adaptive = 250;
    p.tight = 450;
    p.unsafe_builds = 200;
    p
}

pub const C05: BuilderProp = BuilderProp {
    id: "C05",
    profile: profile_c05,
    eval: eval_c05,
    runs_quick: 100_000,
    runs_thorough: 3_000_000,
    text: "one run = one seeded wallet session (explicit inputs of every kind, outputs, certificates, withdrawals, mint/burn, proposals, donation, fee requests, one of the balancing entry points x 4 strategies, build) under one RNG schedule and knob set — non-trivial = a transaction/body was produced after a successful balancing and the preservation-of-value equation was evaluated per asset in big integers from the emitted bytes and ground-truth UTxO values; distinct = distinct state signature (body keys x witness keys x cert tags x input/output head classes x fee width x aux x witness counts x change-path probes x balancing entry)",
    extra_assumptions: &[],
};
pub const C06: BuilderProp = BuilderProp {
    id: "C06",
    profile: profile_c06,
    eval: eval_c06,
    runs_quick: 100_000,
    runs_thorough: 3_000_000,
    text: "one run = one seeded wallet session biased to CBOR width boundaries, all witness kinds, overlapping signers, Plutus with ex-unit prices, reference scripts — non-trivial = a built transaction was signed with exactly the distinct required keys (+1 bootstrap witness per Byron address) and its fee compared with the node's minimum fee of the signed bytes (linear + ex-units + tier-by-tier reference-script fee), plus the fee-request clauses; distinct = distinct state signature as for C05",
    extra_assumptions: &["reference scripts are charged by the smallest defensible size (Plutus: script bytes; native: its CBOR), so a library over-estimate can never be reported"],
};
pub const C07: BuilderProp = BuilderProp {
    id: "C07",
    profile: profile_c07,
    eval: eval_c07,
    runs_quick: 100_000,
    runs_thorough: 3_000_000,
    text: "one run = one seeded wallet session with K9-randomised coins_per_byte / max_value_size / max_tx_size and boundary outputs — non-trivial = a built transaction whose every output (requested, change incl. topped-up last change, minted-asset outputs, helper-made collateral return) was checked for coin >= cpb x (160 + size) and value size <= max, the signed size against max_tx_size, and min_ada_for_output on each observed output against both bounds; distinct = distinct state signature as for C05",
    extra_assumptions: &["the function clause of C07 is evaluated on the outputs sessions produce, not on arbitrary outputs (pure-function part is not claimed)"],
};

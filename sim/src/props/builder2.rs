//! Rule sets C09, C10, C18, C19, C20 over wallet sessions.
use crate::cbor::{self, Kind};
use crate::exec::{self, BuiltObs, History, Purpose};
use crate::oracle::{self, CredV, Ctx, TxView};
use crate::props::builder::{tx_bytes_of, BuilderProp, Signeds};
use crate::runner::Outcome;
use crate::scn::*;
use crate::wallet::Profile;
use crate::world::*;
use cardano_serialization_lib as csl;
use num_bigint::BigInt;
use std::collections::{BTreeMap, BTreeSet};

// ------------------------------------------------------------------ C09

/// languages of all required Plutus scripts (witness or reference)
fn langs_in_use(req: &oracle::Required, cx: &Ctx) -> Option<BTreeSet<u8>> {
    let mut l = BTreeSet::new();
    for h in req.scripts.keys() {
        match cx.script_by_hash(h) {
            Some((_, ScriptSpec::Plutus { lang, .. })) => {
                l.insert(*lang);
            }
            Some(_) => {}
            None => return None,
        }
    }
    Some(l)
}

pub fn eval_c09(sc: &Scenario, h: &History, _signed: &Signeds, out: &mut Outcome) {
    let cx = Ctx { w: &sc.world, k: &sc.knobs, undeclared_ref_scripts: Default::default() };
    for b in &h.built {
        if !b.full {
            continue;
        }
        let v = match TxView::parse(&b.bytes) {
            Ok(v) => v,
            Err(_) => continue,
        };
        // ---- auxiliary data hash
        let aux = v.aux();
        let h7 = v.body().get(7).and_then(|n| n.as_bytes()).map(|x| x.to_vec());
        out.count("c09.aux_checked", 1);
        if aux.is_null() {
            if h7.is_some() {
                out.violate("C09.aux_hash", "aux_hash_without_aux_data", format!("op {}: body has an auxiliary data hash but the transaction carries no auxiliary data", b.op));
            }
        } else {
            out.nontrivial = true;
            out.count("c09.aux_present", 1);
            let want = blake2b256(v.span(aux)).to_vec();
            match &h7 {
                None => out.violate("C09.aux_hash", "aux_hash_missing", format!("op {}: auxiliary data present but body[7] missing", b.op)),
                Some(x) if *x != want => out.violate("C09.aux_hash", "aux_hash_mismatch", format!("op {}: body[7] {} != blake2b256(aux bytes) {}", b.op, hex::encode(x), hex::encode(&want))),
                _ => {}
            }
            if let Some(tx) = &b.tx {
                if let Some(a) = tx.auxiliary_data() {
                    if csl::hash_auxiliary_data(&a).to_bytes() != want {
                        out.violate("C09.aux_helper", "hash_auxiliary_data_differs_from_emitted_bytes", format!("op {}: hash_auxiliary_data != blake2b256(emitted aux bytes)", b.op));
                    }
                }
            }
        }
        // ---- script integrity hash
        let reds = v.ws().get(5);
        let dats = v.ws().get(4);
        let n_reds = match reds.map(|n| &n.kind) {
            Some(Kind::Array(a)) => a.len(),
            Some(Kind::Map(m)) => m.len(),
            _ => 0,
        };
        let has_dats = dats.is_some();
        if n_reds == 0 && !has_dats {
            continue;
        }
        // the statement speaks of the hash computed after the last script item was added
        if b.sdh_at.is_none() || b.dirty_since_sdh {
            out.count("c09.sdh_stale_not_judged", 1);
            continue;
        }
        let req = match oracle::required(&v, &cx) {
            Ok(r) => r,
            Err(_) => {
                out.count("c09.oracle_error", 1);
                continue;
            }
        };
        let langs = match langs_in_use(&req, &cx) {
            Some(l) => l,
            None => {
                out.count("c09.oracle_error", 1);
                continue;
            }
        };
        let mut pre = vec![];
        if n_reds == 0 {
            pre.push(0xa0);
            pre.extend_from_slice(v.span(dats.unwrap()));
            pre.push(0xa0);
        } else {
            pre.extend_from_slice(v.span(reds.unwrap()));
            if let Some(d) = dats {
                pre.extend_from_slice(v.span(d));
            }
            pre.extend(oracle::language_views(&langs, &|l| exec::cost_model_values(l)));
        }
        let want = blake2b256(&pre).to_vec();
        out.nontrivial = true;
        out.count("c09.sdh_checked", 1);
        if n_reds == 0 {
            out.count("c09.sdh_datums_only_form", 1);
        }
        let h11 = v.body().get(11).and_then(|n| n.as_bytes()).map(|x| x.to_vec());
        match &h11 {
            None => out.violate("C09.script_data_hash", "script_data_hash_missing", format!("op {}: redeemers/datums present but body[11] missing", b.op)),
            Some(x) if *x != want => out.violate(
                "C09.script_data_hash",
                "script_data_hash_mismatch",
                format!("op {}: body[11] {} != hash of emitted redeemers|datums|views {} ({} redeemers, datums {}, langs {:?})", b.op, hex::encode(&x[..6]), hex::encode(&want[..6]), n_reds, has_dats, langs),
            ),
            _ => {}
        }
        // stand-alone helper on the typed values of the same witness set
        if let Some(tx) = &b.tx {
            let ws = tx.witness_set();
            let mut bits = 0u8;
            for l in &langs {
                bits |= 1 << (l - 1);
            }
            let r = ws.redeemers().unwrap_or_else(csl::Redeemers::new);
            let helper = csl::hash_script_data(&r, &exec::costmdls(bits), ws.plutus_data()).to_bytes();
            out.count("c09.helper_checked", 1);
            if helper != want {
                out.violate("C09.helper", "hash_script_data_differs_from_emitted_bytes", format!("op {}: hash_script_data(typed witness set) {} != hash of emitted bytes {}", b.op, hex::encode(&helper[..6]), hex::encode(&want[..6])));
            }
            // a peer that received these datums: it decodes the list from a definite-length re-encoding of the
            // same datum bytes, hashes with the stand-alone helper, hands the list to the typed setters of a new
            // witness set and emits that - the helper's hash must be the hash of the bytes it emits
            if let Some(items) = dats.and_then(|d| d.set_items()) {
                let mut lb = vec![];
                if b.op % 2 == 0 {
                    cbor::w_tag(&mut lb, 258);
                }
                cbor::w_array(&mut lb, items.len() as u64);
                for it in items {
                    lb.extend_from_slice(v.span(it));
                }
                // ... and the redeemers in the *other* of the two container forms Conway allows (array of
                // 4-tuples / map from pointer to payload), decoded by the library
                let mut r = r.clone();
                if let Some(rn) = reds {
                    let whole = &b.bytes;
                    let mut rb = vec![];
                    match &rn.kind {
                        Kind::Array(items) if items.iter().all(|x| x.as_array().map_or(false, |a| a.len() == 4)) => {
                            cbor::w_map(&mut rb, items.len() as u64);
                            for it in items {
                                let a = it.as_array().unwrap();
                                cbor::w_array(&mut rb, 2);
                                rb.extend_from_slice(a[0].span(whole));
                                rb.extend_from_slice(a[1].span(whole));
                                cbor::w_array(&mut rb, 2);
                                rb.extend_from_slice(a[2].span(whole));
                                rb.extend_from_slice(a[3].span(whole));
                            }
                        }
                        Kind::Map(entries) if entries.iter().all(|(k, x)| k.as_array().map_or(false, |a| a.len() == 2) && x.as_array().map_or(false, |a| a.len() == 2)) => {
                            cbor::w_array(&mut rb, entries.len() as u64);
                            for (k, x) in entries {
                                let (ka, xa) = (k.as_array().unwrap(), x.as_array().unwrap());
                                cbor::w_array(&mut rb, 4);
                                rb.extend_from_slice(ka[0].span(whole));
                                rb.extend_from_slice(ka[1].span(whole));
                                rb.extend_from_slice(xa[0].span(whole));
                                rb.extend_from_slice(xa[1].span(whole));
                            }
                        }
                        _ => {}
                    }
                    if !rb.is_empty() && b.op % 3 != 0 {
                        if let Ok(r2) = csl::Redeemers::from_bytes(rb) {
                            out.count("c09.relayed_redeemers_in_other_container_form", 1);
                            r = r2;
                        }
                    }
                }
                if let Ok(list) = csl::PlutusList::from_bytes(lb) {
                    let helper2 = csl::hash_script_data(&r, &exec::costmdls(bits), Some(list.clone())).to_bytes();
                    let mut ws2 = csl::TransactionWitnessSet::new();
                    ws2.set_plutus_data(&list);
                    if n_reds > 0 {
                        ws2.set_redeemers(&r);
                    }
                    let b2 = ws2.to_bytes();
                    if let Ok(n2) = cbor::parse(&b2) {
                        let mut pre2 = vec![];
                        match (n2.get(5), n2.get(4)) {
                            (None, Some(d2)) => {
                                pre2.push(0xa0);
                                pre2.extend_from_slice(d2.span(&b2));
                                pre2.push(0xa0);
                            }
                            (Some(r2), d2) => {
                                pre2.extend_from_slice(r2.span(&b2));
                                if let Some(d2) = d2 {
                                    pre2.extend_from_slice(d2.span(&b2));
                                }
                                pre2.extend(oracle::language_views(&langs, &|l| exec::cost_model_values(l)));
                            }
                            _ => {}
                        }
                        if !pre2.is_empty() {
                            out.count("c09.relayed_datum_lists_checked", 1);
                            if helper2 != blake2b256(&pre2).to_vec() {
                                out.violate("C09.helper", "hash_script_data_differs_from_what_the_typed_setters_emit", format!("op {}: hash_script_data over a decoded datum list != hash of the witness set the typed setters emit for it", b.op));
                            }
                        }
                    }
                }
            }
            if let Some(pl) = ws.plutus_data() {
                if let Some(items) = dats.and_then(|d| d.set_items()) {
                    for (i, it) in items.iter().enumerate() {
                        if i < pl.len() {
                            let hd = csl::hash_plutus_data(&pl.get(i)).to_bytes();
                            if hd != blake2b256(v.span(it)).to_vec() {
                                out.violate("C09.helper", "hash_plutus_data_differs_from_emitted_bytes", format!("op {}: datum {}: hash_plutus_data != blake2b256(emitted datum bytes)", b.op, i));
                            }
                        }
                    }
                }
            }
        }
    }
}

// ------------------------------------------------------------------ C10

fn ledger_cred_rank(is_script: bool) -> u8 {
    // derived Ord of Credential: ScriptHashObj < KeyHashObj
    if is_script {
        0
    } else {
        1
    }
}

pub fn eval_c10(sc: &Scenario, h: &History, _signed: &Signeds, out: &mut Outcome) {
    let cx = Ctx { w: &sc.world, k: &sc.knobs, undeclared_ref_scripts: Default::default() };
    for b in &h.built {
        if !b.full {
            continue;
        }
        let v = match TxView::parse(&b.bytes) {
            Ok(v) => v,
            Err(_) => continue,
        };
        let reds = match v.redeemers() {
            Ok(r) => r,
            Err(_) => continue,
        };
        let attaches: Vec<&exec::Attach> = h.attaches.iter().filter(|a| a.live && a.op < b.op).collect();
        if reds.is_empty() && attaches.is_empty() {
            continue;
        }
        let inputs = match oracle::sorted_inputs(&v) {
            Ok(i) => i,
            Err(_) => continue,
        };
        let mut policies = v.mint_policies().unwrap_or_default();
        policies.sort();
        let certs = v.certs().unwrap_or_default();
        let wdrs = v.withdrawals().unwrap_or_default();
        let voters = v.voters().unwrap_or_default();
        let props = v.proposals().unwrap_or_default();
        // ranks under the ledger's order and under raw byte order
        let mut w_ledger: Vec<Vec<u8>> = wdrs.iter().map(|x| x.0.clone()).collect();
        w_ledger.sort_by_key(|a| (a[0] & 0x0f, ledger_cred_rank(a[0] >> 4 == 0b1111), a[1..].to_vec()));
        let mut w_bytes: Vec<Vec<u8>> = wdrs.iter().map(|x| x.0.clone()).collect();
        w_bytes.sort();
        let voter_key = |t: u64, hh: &Vec<u8>| -> Vec<u8> {
            let mut k = vec![t as u8];
            k.extend_from_slice(hh);
            k
        };
        let mut v_ledger: Vec<(u64, Vec<u8>)> = voters.clone();
        v_ledger.sort_by_key(|(t, hh)| {
            let (ctor, script) = match t {
                0 => (0u8, false),
                1 => (0, true),
                2 => (1, false),
                3 => (1, true),
                _ => (2, false),
            };
            (ctor, if *t == 4 { 0 } else { ledger_cred_rank(script) }, hh.clone())
        });
        let mut v_bytes: Vec<(u64, Vec<u8>)> = voters.clone();
        v_bytes.sort();
        out.nontrivial = true;
        out.count("c10.evaluated", 1);
        let mut seen_ptr: BTreeSet<(u64, u64)> = BTreeSet::new();
        // positions (in `attaches`) of the attachments a redeemer of the witness set was resolved to
        let mut matched: BTreeSet<usize> = BTreeSet::new();
        for r in &reds {
            out.count("c10.redeemers_checked", 1);
            if !seen_ptr.insert((r.tag, r.index)) {
                out.violate("C10.pointer_unique", "two_redeemers_share_a_pointer", format!("op {}: pointer ({},{}) occurs twice", b.op, r.tag, r.index));
                continue;
            }
            // who was it attached to?
            let data = &b.bytes[r.data_span.0..r.data_span.1];
            let red_id = match cbor::parse(data).ok().and_then(|n| n.as_u64()) {
                Some(x) if x >= 1_000_000 => (x - 1_000_000) as u32,
                _ => {
                    out.count("c10.foreign_redeemer_payload", 1);
                    continue;
                }
            };
            // two uses of one script may carry the same redeemer payload: every attachment with this payload is a
            // candidate, the pointer has to fit one that no other redeemer was resolved to yet
            let cands: Vec<usize> = attaches.iter().enumerate().filter(|(_, a)| a.red == red_id).map(|(p, _)| p).collect();
            if cands.is_empty() {
                out.violate("C10.pointer_target", "redeemer_without_attachment", format!("op {}: redeemer payload {} was never attached (or its attachment was replaced)", b.op, red_id));
                continue;
            }
            let idx = r.index as usize;
            let tagname = ["spend", "mint", "cert", "reward", "vote", "propose"].get(r.tag as usize).cloned().unwrap_or("?");
            let mut problems: Vec<(String, String)> = vec![];
            let mut resolved: Option<usize> = None;
            for cp in &cands {
              if matched.contains(cp) {
                  continue;
              }
              let att = &attaches[*cp];
              let mut found: Option<(String, String)> = None;
              {
              let mut wrong = |_o: &mut Outcome, class: &str, detail: String| {
                  if found.is_none() {
                      found = Some((class.to_string(), format!("op {}: redeemer {} attached to {:?} carries pointer ({},{}) {}", b.op, red_id, short(&att.purpose), tagname, idx, detail)));
                  }
              };
              match (&att.purpose, r.tag) {
                (Purpose::Spend(hh, ix), 0) => match inputs.get(idx) {
                    Some(i) if i.0 == *hh && i.1 == *ix => {
                        // must be script locked
                        if let Some(u) = cx.utxo(i) {
                            if !matches!(u.addr.pay_cred(), Some(Cred::Script(_))) {
                                wrong(out, "spend_pointer_to_non_script_input", "which is not script-locked".into());
                            }
                        }
                    }
                    Some(i) => wrong(out, "spend_pointer_wrong_input", format!("but sorted input {} is {}#{}", idx, hex::encode(&i.0[..4]), i.1)),
                    None => wrong(out, "spend_pointer_out_of_range", format!("but there are {} inputs", inputs.len())),
                },
                (Purpose::Mint(p), 1) => match policies.get(idx) {
                    Some(q) if q == p => {}
                    Some(q) => wrong(out, "mint_pointer_wrong_policy", format!("but sorted policy {} is {}", idx, hex::encode(&q[..4]))),
                    None => wrong(out, "mint_pointer_out_of_range", format!("but there are {} policies", policies.len())),
                },
                (Purpose::Cert(cb), 2) => match certs.get(idx) {
                    Some(n) if v.span(n) == &cb[..] => {
                        // must be script-locked: the ledger asks a script witness for this certificate
                        if let Ok(f) = oracle::cert_facts(n, &sc.knobs) {
                            if f.scripts.is_empty() {
                                wrong(out, "cert_pointer_to_certificate_without_script", "which needs no script witness".into());
                            }
                        }
                    }
                    Some(_) => wrong(out, "cert_pointer_wrong_certificate", "but that position holds another certificate".into()),
                    None => wrong(out, "cert_pointer_out_of_range", format!("but there are {} certificates", certs.len())),
                },
                (Purpose::Reward(acct), 3) => {
                    let ok_l = w_ledger.get(idx).map_or(false, |a| a == acct);
                    let ok_b = w_bytes.get(idx).map_or(false, |a| a == acct);
                    // a reward account is script-locked iff its header says script credential (bit 4)
                    if ok_l && acct.first().map_or(false, |h| h & 0x10 == 0) {
                        wrong(out, "reward_pointer_to_key_account", "which is a key account".into());
                    }
                    let _ = ok_b;
                    if !ok_l {
                        let emitted_pos = wdrs.iter().position(|x| &x.0 == acct);
                        wrong(out, "reward_pointer_not_in_account_order", format!("but the account ranks {:?} in ledger order and {:?} in byte order (emitted position {:?})", w_ledger.iter().position(|a| a == acct), w_bytes.iter().position(|a| a == acct), emitted_pos));
                    }
                }
                (Purpose::Vote(vb), 4) => {
                    // vb = library bytes of the voter: [tag, hash]
                    let vk = cbor::parse(vb).ok().and_then(|n| {
                        let a = n.as_array()?.clone();
                        Some((a.get(0)?.as_u64()?, a.get(1)?.as_bytes()?.to_vec()))
                    });
                    if let Some((t, hh)) = vk {
                        let ok_l = v_ledger.get(idx).map_or(false, |x| x.0 == t && x.1 == hh);
                        let ok_b = v_bytes.get(idx).map_or(false, |x| x.0 == t && x.1 == hh);
                        let _ = voter_key;
                        if ok_l && !(t == 1 || t == 3) {
                            wrong(out, "vote_pointer_to_key_voter", "which is not a script voter".into());
                        }
                        if !ok_l {
                            wrong(out, "vote_pointer_not_in_voter_order", format!("but the voter ranks {:?} in ledger order and {:?} in byte order", v_ledger.iter().position(|x| x.0 == t && x.1 == hh), v_bytes.iter().position(|x| x.0 == t && x.1 == hh)));
                        }
                    }
                }
                (Purpose::Propose(pb), 5) => match props.get(idx) {
                    Some(n) if v.span(n) == &pb[..] => {}
                    Some(_) => wrong(out, "propose_pointer_wrong_proposal", "but that position holds another proposal".into()),
                    None => wrong(out, "propose_pointer_out_of_range", format!("but there are {} proposals", props.len())),
                },
                _ => wrong(out, "pointer_wrong_purpose", "whose tag does not match the purpose it was attached to".into()),
              }
              }
              match found {
                  None => {
                      resolved = Some(*cp);
                      break;
                  }
                  Some(p) => problems.push(p),
              }
            }
            match resolved {
                Some(cp) => {
                    matched.insert(cp);
                }
                None => match problems.into_iter().next() {
                    Some((class, detail)) => out.violate("C10.pointer_target", &class, detail),
                    None => out.violate("C10.pointer_target", "redeemer_without_attachment", format!("op {}: more redeemers with payload {} than attachments", b.op, red_id)),
                },
            }
        }
        // every live attachment whose item is in the transaction has its redeemer
        for (ap, a) in attaches.iter().enumerate() {
            if matched.contains(&ap) {
                continue;
            }
            let present = match &a.purpose {
                Purpose::Spend(hh, ix) => inputs.iter().any(|i| i.0 == *hh && i.1 == *ix),
                Purpose::Mint(p) => policies.contains(p),
                Purpose::Cert(cb) => certs.iter().any(|n| v.span(n) == &cb[..]),
                Purpose::Reward(acct) => wdrs.iter().any(|x| &x.0 == acct),
                Purpose::Vote(_) => true,
                Purpose::Propose(pb) => props.iter().any(|n| v.span(n) == &pb[..]),
            };
            if present {
                out.violate("C10.redeemer_present", "attached_redeemer_missing", format!("op {}: the redeemer {} attached to {:?} is not in the witness set", b.op, a.red, short(&a.purpose)));
            }
        }
    }
}

fn short(p: &Purpose) -> String {
    match p {
        Purpose::Spend(h, i) => format!("spend {}#{}", hex::encode(&h[..4]), i),
        Purpose::Mint(p) => format!("mint {}", hex::encode(&p[..4])),
        Purpose::Cert(c) => format!("cert {}", hex::encode(&c[..c.len().min(6)])),
        Purpose::Reward(a) => format!("reward {}", hex::encode(&a[..5])),
        Purpose::Vote(v) => format!("vote {}", hex::encode(&v[..v.len().min(6)])),
        Purpose::Propose(p) => format!("propose {}", hex::encode(&p[..p.len().min(6)])),
    }
}

// ------------------------------------------------------------------ C18

pub const VKEY_WITNESS_SIZE: i64 = 101;

pub fn eval_c18(sc: &Scenario, h: &History, signed: &Signeds, out: &mut Outcome) {
    let cx = Ctx { w: &sc.world, k: &sc.knobs, undeclared_ref_scripts: Default::default() };
    for (bi, b) in h.built.iter().enumerate() {
        if !b.full {
            continue;
        }
        let v = match TxView::parse(&b.bytes) {
            Ok(v) => v,
            Err(_) => continue,
        };
        let req = match oracle::required(&v, &cx) {
            Ok(r) => r,
            Err(_) => {
                out.count("c18.oracle_error", 1);
                continue;
            }
        };
        let ws_scripts = match oracle::witness_scripts(&v) {
            Ok(m) => m,
            Err(_) => continue,
        };
        let ref_scripts = match oracle::reference_scripts(&v, &cx) {
            Ok(m) => m,
            Err(_) => continue,
        };
        out.nontrivial = true;
        out.count("c18.evaluated", 1);
        // 1. every required script is available, and the witness set lists nothing twice
        for (hsh, why) in &req.scripts {
            out.count("c18.required_scripts_checked", 1);
            let in_ws = ws_scripts.get(hsh).cloned().unwrap_or(0);
            let by_ref = ref_scripts.contains_key(hsh);
            if in_ws == 0 && !by_ref {
                let known = cx.script_by_hash(hsh).is_some();
                if !known {
                    out.count("c18.required_script_unknown_to_world", 1);
                    continue;
                }
                out.violate("C18.script_available", "required_script_not_available", format!("op {}: script {} needed for {:?} is neither in the witness set nor behind a reference input of the body", b.op, hex::encode(&hsh[..4]), why));
            }
            if by_ref {
                out.count("c18.script_by_reference", 1);
            }
        }
        for (hsh, n) in &ws_scripts {
            if *n > 1 {
                out.violate("C18.unique", "script_listed_twice", format!("op {}: script {} occurs {} times in the witness set", b.op, hex::encode(&hsh[..4]), n));
            }
        }
        // a script the history declared by reference: its UTxO is among the body's reference inputs (or inputs)
        let mut refs: BTreeSet<(Vec<u8>, u64)> = v.inputs_of(18).unwrap_or_default().into_iter().collect();
        let ins: BTreeSet<(Vec<u8>, u64)> = v.inputs_of(0).unwrap_or_default().into_iter().collect();
        // (a caller who lists an input explicitly and leaves the de-duplication option off asked for the overlap)
        let listed_explicitly: BTreeSet<(Vec<u8>, u64)> = if sc.knobs.dedup_ref_inputs {
            BTreeSet::new()
        } else {
            sc.ops.iter().take(b.op).filter_map(|o| if let Op::RefIn(u, _) = o { Some(*u) } else { None }).filter(|u| *u < sc.world.utxos.len()).map(|u| sc.world.outpoint(u)).collect()
        };
        if let Some(dup) = refs.iter().find(|r| ins.contains(*r) && !listed_explicitly.contains(*r)) {
            out.violate("C18.ref_disjoint", "reference_input_is_also_an_input", format!("op {}: {}#{} is both input and reference input", b.op, hex::encode(&dup.0[..4]), dup.1));
        }
        refs.extend(ins.iter().cloned());
        for (i, op) in sc.ops.iter().enumerate() {
            if i >= b.op || !h.results[i].is_ok() {
                continue;
            }
            let wit = match op {
                Op::InScript { wit, .. } => Some(wit),
                Op::Cert(_, Some(w)) | Op::Wdr(_, _, Some(w)) | Op::Propose(_, Some(w)) => Some(w),
                Op::Mint { wit, .. } => Some(wit),
                Op::Vote { wit: Some(w), .. } => Some(w),
                _ => None,
            };
            if let Some(w) = wit {
                if let ScriptUse::Ref(u) = &w.how {
                    if *u < sc.world.utxos.len() {
                        let hsh = oracle::script_hash_of(&sc.world.scripts[w.script as usize]).to_vec();
                        // only when that use is still part of the transaction
                        if req.scripts.contains_key(&hsh) && ws_scripts.get(&hsh).cloned().unwrap_or(0) == 0 {
                            out.count("c18.declared_refs_checked", 1);
                            if !refs.contains(&sc.world.outpoint(*u)) {
                                out.violate("C18.ref_declared", "declared_reference_input_missing_from_body", format!("op {}: script {} was declared by reference to world#{} (op {}) but that outpoint is not among the body's reference inputs", b.op, hex::encode(&hsh[..4]), u, i));
                            }
                        }
                    }
                }
            }
        }
        // ... and so does every reference input that the (last) witness of a spent script input names as the place of its datum
        {
            let mut last: BTreeMap<usize, (usize, &crate::scn::Wit)> = BTreeMap::new();
            for (i, op) in sc.ops.iter().enumerate() {
                if i >= b.op || !h.results[i].is_ok() {
                    continue;
                }
                match op {
                    Op::InScript { utxo, wit, .. } => {
                        last.insert(*utxo, (i, wit));
                    }
                    Op::InScriptThenRegular { utxo, .. } | Op::InUtxo(utxo) | Op::InLegacy(utxo) | Op::InDirect(utxo) => {
                        last.remove(utxo);
                    }
                    _ => {}
                }
            }
            for (utxo, (i, w)) in last {
                if let crate::scn::DatumUse::Ref(du) = &w.datum {
                    if utxo < sc.world.utxos.len() && *du < sc.world.utxos.len() && ins.contains(&sc.world.outpoint(utxo)) {
                        out.count("c18.declared_datum_refs_checked", 1);
                        if !refs.contains(&sc.world.outpoint(*du)) {
                            out.violate("C18.ref_declared", "declared_datum_reference_input_missing_from_body", format!("op {}: the witness of input world#{} (op {}) names world#{} as the place of its datum, but that outpoint is not among the body's reference inputs", b.op, utxo, i, du));
                        }
                    }
                }
            }
        }
        // 2. datums: a Plutus-locked input whose UTxO carries a datum hash has its datum in the witness set
        let mut datum_hashes: Vec<Vec<u8>> = vec![];
        if let Some(d) = v.ws().get(4) {
            if let Some(items) = d.set_items() {
                for it in items {
                    datum_hashes.push(blake2b256(v.span(it)).to_vec());
                }
            }
        }
        {
            let mut s = BTreeSet::new();
            for d in &datum_hashes {
                if !s.insert(d.clone()) {
                    out.violate("C18.unique", "datum_listed_twice", format!("op {}: datum {} occurs twice in the witness set", b.op, hex::encode(&d[..4])));
                }
            }
        }
        let reds = v.redeemers().unwrap_or_default();
        let sorted = oracle::sorted_inputs(&v).unwrap_or_default();
        for (i, hsh) in &req.script_inputs {
            let plutus = matches!(cx.script_by_hash(hsh), Some((_, ScriptSpec::Plutus { .. })));
            if !plutus {
                continue;
            }
            if let Some(u) = cx.utxo(i) {
                if let Some(DatumAt::Hash(d)) = &u.datum {
                    let want = csl_free_datum_hash(&sc.world, *d);
                    out.count("c18.datum_required_checked", 1);
                    if !datum_hashes.contains(&want) {
                        out.violate("C18.datum_available", "required_datum_missing", format!("op {}: input {}#{} is locked with datum hash {} but no such datum is in the witness set", b.op, hex::encode(&i.0[..4]), i.1, hex::encode(&want[..4])));
                    }
                }
            }
            let pos = sorted.iter().position(|x| x == i).unwrap_or(usize::MAX);
            out.count("c18.redeemer_required_checked", 1);
            if !reds.iter().any(|r| r.tag == 0 && r.index as usize == pos) {
                out.violate("C18.redeemer_available", "required_redeemer_missing", format!("op {}: Plutus input {}#{} (sorted position {}) has no spending redeemer", b.op, hex::encode(&i.0[..4]), i.1, pos));
            }
        }
        // 3. predicted size against the really signed transaction
        if b.balanced_at.is_none() {
            continue;
        }
        if let (Some(Some(Ok(s))), Some(fs)) = (signed.get(bi), b.full_size) {
            let diff = fs as i64 - s.bytes.len() as i64;
            out.count("c18.size_checked", 1);
            if diff < 0 {
                out.violate(
                    "C18.size",
                    if s.n_bootstrap > 0 { "predicted_size_too_small/with_bootstrap_witness" } else { "predicted_size_too_small" },
                    format!("op {}: full_size() {} < signed size {} ({} vkey + {} bootstrap witnesses)", b.op, fs, s.bytes.len(), s.n_vkeys, s.n_bootstrap),
                );
            } else if diff >= VKEY_WITNESS_SIZE {
                out.violate("C18.size", "predicted_size_too_large", format!("op {}: full_size() {} exceeds signed size {} by {} >= one key witness ({} vkey + {} bootstrap witnesses)", b.op, fs, s.bytes.len(), diff, s.n_vkeys, s.n_bootstrap));
            }
        }
    }
}

/// datum hash computed by the harness from the library's serialization of the world datum
/// (the datum bytes are the ground truth the UTxO was created with)
fn csl_free_datum_hash(w: &World, d: DatumId) -> Vec<u8> {
    blake2b256(&w.datum(d).to_bytes()).to_vec()
}

// ------------------------------------------------------------------ C19

fn out_bytes(o: &Option<csl::TransactionOutput>) -> Option<Vec<u8>> {
    o.as_ref().map(|x| x.to_bytes())
}

pub fn eval_c19(sc: &Scenario, h: &History, _signed: &Signeds, out: &mut Outcome) {
    let cx = Ctx { w: &sc.world, k: &sc.knobs, undeclared_ref_scripts: Default::default() };
    // failed attempts leave nothing behind
    for e in &h.coll_events {
        if e.res.is_ok() {
            continue;
        }
        if !matches!(e.res, exec::Res::Err(_)) {
            continue;
        }
        out.nontrivial = true;
        out.count("c19.failed_attempts_checked", 1);
        out.count("fault.F4_failed_collateral_helper", 1);
        let (ar, at) = (&e.after.0, &e.after.1);
        let (br, bt) = (&e.before.0, &e.before.1);
        if e.kind == "percentage_helper" {
            if ar.is_some() || at.is_some() {
                out.violate("C19.failed_attempt", "percentage_helper_failure_leaves_fields", format!("op {}: helper failed but collateral return set: {}, total set: {}", e.op, ar.is_some(), at.is_some()));
            }
        } else {
            let r_new = ar.is_some() && out_bytes(ar) != out_bytes(br);
            let t_new = at.is_some() && at != bt;
            if r_new || t_new {
                out.violate("C19.failed_attempt", "explicit_helper_failure_changes_fields", format!("op {} ({}): failed but return changed: {}, total changed: {}", e.op, e.kind, r_new, t_new));
            }
        }
    }
    for b in &h.built {
        if b.coll_set_at.is_none() || b.coll_dirty {
            continue;
        }
        let txb = tx_bytes_of(b);
        let v = match TxView::parse(&txb) {
            Ok(v) => v,
            Err(_) => continue,
        };
        let ret = v.body().get(16);
        let tot = v.body().get(17);
        if ret.is_none() && tot.is_none() {
            continue;
        }
        let cins = match v.inputs_of(13) {
            Ok(c) => c,
            Err(_) => continue,
        };
        let mut lhs = GVal::default();
        let mut ok = true;
        for i in &cins {
            match cx.utxo(i) {
                Some(u) => lhs.add(&GVal::of_utxo(cx.w, u)),
                None => ok = false,
            }
        }
        if !ok {
            out.count("c19.oracle_error", 1);
            continue;
        }
        out.nontrivial = true;
        out.count("c19.evaluated", 1);
        let mut rhs = GVal::default();
        let mut ret_view = None;
        if let Some(r) = ret {
            match oracle::output_of(r) {
                Ok(o) => {
                    rhs.add(&o.value);
                    ret_view = Some(o);
                }
                Err(_) => continue,
            }
        }
        let total = tot.and_then(|t| t.as_u64());
        if let Some(t) = total {
            rhs.coin += t as i128;
        }
        let mut diff = lhs.clone();
        diff.sub(&rhs);
        diff.normalize();
        if !diff.is_zero() {
            let foreign = diff.assets.values().any(|q| *q < 0);
            let class = if foreign {
                "return_holds_assets_the_collateral_lacks"
            } else if !diff.assets.is_empty() {
                "collateral_assets_not_returned"
            } else {
                "lovelace_equation_broken"
            };
            out.violate("C19.equation", class, format!("op {}: collateral inputs {} != return + total {} (difference {})", b.op, lhs.describe(), rhs.describe(), diff.describe()));
        }
        if tot.is_none() && ret.is_some() {
            out.violate("C19.equation", "return_without_total", format!("op {}: collateral return set without total collateral", b.op));
        }
        if let Some(o) = &ret_view {
            let size = (o.span.1 - o.span.0) as i128;
            if o.value.coin < sc.knobs.cpb as i128 * (160 + size) {
                out.violate("C19.return_min_ada", "collateral_return_below_min_ada", format!("op {}: collateral return coin {} < {} x (160 + {})", b.op, o.value.coin, sc.knobs.cpb, size));
            }
        }
        if let (Some(pct), Some(t)) = (b.coll_pct, total) {
            if let Ok(fee) = v.fee() {
                out.count("c19.percentage_checked", 1);
                // at least ceil(fee * pct / 100)
                if (t as u128) * 100 < fee as u128 * pct as u128 {
                    out.violate("C19.percentage", "total_collateral_below_percentage", format!("op {}: total collateral {} x 100 < fee {} x {}", b.op, t, fee, pct));
                }
            }
        }
    }
}

// ------------------------------------------------------------------ C20

pub fn eval_c20(sc: &Scenario, h: &History, _signed: &Signeds, out: &mut Outcome) {
    let cx = Ctx { w: &sc.world, k: &sc.knobs, undeclared_ref_scripts: Default::default() };
    let k = &sc.knobs;
    let mut bodies: Vec<(usize, Vec<u8>, csl::TransactionBody, csl::TransactionBuilder)> = vec![];
    for b in &h.built {
        bodies.push((b.op, tx_bytes_of(b), b.body.clone(), b.builder.clone()));
        // the certificates the builder balances are the ones the history managed to set (a refused
        // whole-collection setter must leave the builder as it was)
        if let Ok(v) = TxView::parse(&tx_bytes_of(b)) {
            let mut emitted: Vec<Vec<u8>> = v.certs().unwrap_or_default().iter().map(|n| v.span(n).to_vec()).collect();
            let mut want = b.expected_certs.clone();
            emitted.sort();
            want.sort();
            out.count("c20.certificate_lists_compared", 1);
            if emitted != want {
                out.violate("C20.builder_certificates", "builder_balances_other_certificates_than_were_set", format!("op {}: the body carries {} certificate(s), the history's successful calls set {}", b.op, emitted.len(), want.len()));
            }
            // ... and so are the proposals: every distinct proposal a successful call handed over is in the body, once
            // (two proposals are the same only if action, document, deposit and return account all are)
            let mut handed: Vec<&crate::scn::ProposalSpec> = vec![];
            for (i, o) in sc.ops.iter().enumerate().take(b.op) {
                if let Op::Propose(p, _) = o {
                    if h.results.get(i).map_or(false, |r| r.is_ok()) && !handed.contains(&p) {
                        handed.push(p);
                    }
                }
            }
            let in_body = v.proposals().map(|x| x.len()).unwrap_or(0);
            out.count("c20.proposal_lists_compared", 1);
            if in_body != handed.len() {
                out.violate("C20.builder_proposals", "builder_balances_other_proposals_than_were_set", format!("op {}: the body carries {} proposal(s), the history's successful calls handed over {} distinct one(s)", b.op, in_body, handed.len()));
            }
            // explicit amounts: a registration / deregistration the history built with an explicit amount is
            // in the body in its Conway form with exactly that amount (read by the harness reader)
            let from = sc.ops.iter().enumerate().take(b.op).filter(|(i, o)| matches!(o, Op::RemoveCerts | Op::SetCertsLegacy | Op::SetCertsLegacyWith(_)) && h.results.get(*i).map_or(false, |r| r.is_ok())).map(|(i, _)| i + 1).last().unwrap_or(0);
            for (i, o) in sc.ops.iter().enumerate().take(b.op).skip(from) {
                if !h.results.get(i).map_or(false, |r| r.is_ok()) {
                    continue;
                }
                let (tag, cred, coin_ix, amount, legacy_tag) = match o {
                    Op::Cert(CertSpec::StakeRegCoin(c, d), _) => (7u64, c, 2usize, *d, Some(0u64)),
                    Op::Cert(CertSpec::StakeDeregCoin(c, d), _) => (8, c, 2, *d, Some(1)),
                    Op::Cert(CertSpec::DRepReg(c, d, _), _) => (16, c, 2, *d, None),
                    Op::Cert(CertSpec::DRepDereg(c, d), _) => (17, c, 2, *d, None),
                    Op::Cert(CertSpec::StakeRegDeleg(c, _, d), _) => (11, c, 3, *d, None),
                    Op::Cert(CertSpec::VoteRegDeleg(c, _, d), _) => (12, c, 3, *d, None),
                    Op::Cert(CertSpec::StakeVoteRegDeleg(c, _, _, d), _) => (13, c, 4, *d, None),
                    _ => continue,
                };
                let want_cred = match cred {
                    Cred::Key(k) => oracle::CredV::Key(key(*k).hash_bytes.to_vec()),
                    Cred::Script(sid) if (*sid as usize) < sc.world.scripts.len() => oracle::CredV::Script(oracle::script_hash_of(&sc.world.scripts[*sid as usize]).to_vec()),
                    _ => continue,
                };
                let same_cred = |n: &cbor::Node| n.idx(1).and_then(|c| oracle::cred_of(c).ok()).map_or(false, |c| match (&c, &want_cred) {
                    (oracle::CredV::Key(a), oracle::CredV::Key(b2)) | (oracle::CredV::Script(a), oracle::CredV::Script(b2)) => a == b2,
                    _ => false,
                });
                let certs = v.certs().unwrap_or_default();
                let mine: Vec<&&cbor::Node> = certs.iter().filter(|n| n.idx(0).and_then(|t| t.as_u64()) == Some(tag) && same_cred(n)).collect();
                out.count("c20.explicit_amounts_checked", 1);
                if mine.iter().any(|n| n.idx(coin_ix).and_then(|c| c.as_u64()) == Some(amount)) {
                    continue;
                }
                if !mine.is_empty() {
                    out.violate("C20.explicit_amount", "explicit_amount_changed", format!("op {}: certificate of op {} (tag {}) was built with the explicit amount {} but the body carries another amount", b.op, i, tag, amount));
                } else if legacy_tag.map_or(false, |lt| certs.iter().any(|n| n.idx(0).and_then(|t| t.as_u64()) == Some(lt) && same_cred(n))) {
                    out.violate("C20.explicit_amount", "explicit_amount_form_lost", format!("op {}: certificate of op {} was built with the explicit amount {} but the body carries the form without an amount (charged by parameter)", b.op, i, amount));
                }
            }
        }
    }
    // cert/withdrawal/proposal-only sessions: force a body out of the final builder state
    if bodies.is_empty() {
        if let Some(fb) = &h.final_builder {
            let mut c = fb.clone();
            if c.get_fee_if_set().is_none() {
                c.set_fee(&csl::BigNum::from(0u64));
            }
            if let Ok(body) = c.build() {
                out.count("c20.forced_body", 1);
                bodies.push((sc.ops.len(), crate::props::builder::wrap_body(&body.to_bytes()), body, c));
            }
        }
    }
    // the collection builders' own figures (certificate deposits and refunds, total withdrawals) against the node's
    // reading of the body that was built from them
    for b in &h.built {
        if let Ok(v) = TxView::parse(&tx_bytes_of(b)) {
            let mut dep = BigInt::from(0);
            let mut refund = BigInt::from(0);
            let mut ok = true;
            for c in v.certs().unwrap_or_default() {
                match oracle::cert_facts(c, k) {
                    Ok(f) => {
                        dep += f.deposit;
                        refund += f.refund;
                    }
                    Err(_) => ok = false,
                }
            }
            if !ok {
                continue;
            }
            let wsum: BigInt = v.withdrawals().unwrap_or_default().iter().map(|x| BigInt::from(x.1)).sum();
            out.count("c20.collection_builder_figures_compared", 1);
            for (name, got, want) in [("certificate deposits", b.sub_figures[0], &dep), ("certificate refunds", b.sub_figures[1], &refund), ("total withdrawals", b.sub_figures[2], &wsum)] {
                match got {
                    Some(g) if BigInt::from(g) != *want => out.violate("C20.collection_builders", "collection_builder_figure_differs", format!("op {}: the collection builder reports {} = {}, the body it was built from carries {}", b.op, name, g, want)),
                    None if *want <= BigInt::from(u64::MAX) => out.violate("C20.collection_builders", "collection_builder_error_although_fits", format!("op {}: the collection builder fails to report {} although {} fits in 64 bits", b.op, name, want)),
                    _ => {}
                }
            }
        }
    }
    for (op, txb, body, builder) in bodies {
        let v = match TxView::parse(&txb) {
            Ok(v) => v,
            Err(_) => continue,
        };
        let mut dep = BigInt::from(0);
        let mut refund = BigInt::from(0);
        let mut tags: BTreeSet<u64> = BTreeSet::new();
        let mut ok = true;
        for c in v.certs().unwrap_or_default() {
            match oracle::cert_facts(c, k) {
                Ok(f) => {
                    dep += f.deposit;
                    refund += f.refund;
                    tags.insert(f.tag);
                }
                Err(_) => ok = false,
            }
        }
        let nprops = v.proposals().map(|p| p.len()).unwrap_or(0);
        for p in v.proposals().unwrap_or_default() {
            match p.idx(0).and_then(|x| x.as_u64()) {
                Some(d) => dep += d,
                None => ok = false,
            }
        }
        let wsum: BigInt = v.withdrawals().unwrap_or_default().iter().map(|x| BigInt::from(x.1)).sum();
        if !ok {
            out.count("c20.oracle_error", 1);
            continue;
        }
        let implicit = wsum.clone() + refund.clone();
        if tags.is_empty() && nprops == 0 && wsum == BigInt::from(0) {
            out.count("c20.no_cert_no_wdr_no_prop", 1);
        } else {
            out.nontrivial = true;
        }
        out.count("c20.evaluated", 1);
        let fits = |x: &BigInt| *x <= BigInt::from(u64::MAX);
        if !fits(&dep) || !fits(&implicit) {
            out.count("c20.total_beyond_64_bits", 1);
        }
        let tagset = format!("{:?}", tags);
        // helper vs node
        match csl::get_deposit(&body, &csl::BigNum::from(k.pool_deposit), &csl::BigNum::from(k.key_deposit)) {
            Ok(d) => {
                let d = BigInt::from(u64::from(d));
                if d != dep {
                    let prop_sum: BigInt = v.proposals().unwrap_or_default().iter().filter_map(|p| p.idx(0).and_then(|x| x.as_u64())).map(BigInt::from).sum();
                    let class = if nprops > 0 && d.clone() + prop_sum == dep { "helper_deposit_ignores_proposals".to_string() } else { "helper_deposit_differs".to_string() };
                    out.violate("C20.helper_deposit", &class, format!("op {}: get_deposit = {} but the ledger charges {} (cert tags {}, {} proposals)", op, d, dep, tagset, nprops));
                }
            }
            Err(_) => {
                if fits(&dep) {
                    out.violate("C20.helper_deposit", "helper_deposit_error_although_fits", format!("op {}: get_deposit failed but the total {} fits in 64 bits", op, dep));
                }
            }
        }
        match csl::get_implicit_input(&body, &csl::BigNum::from(k.pool_deposit), &csl::BigNum::from(k.key_deposit)) {
            Ok(val) => {
                let d = BigInt::from(u64::from(val.coin()));
                if d != implicit || val.multiasset().map_or(false, |m| m.len() > 0) {
                    let n_retire = v.certs().unwrap_or_default().iter().filter(|c| c.idx(0).and_then(|x| x.as_u64()) == Some(4)).count();
                    let class = if n_retire > 0 && d == implicit.clone() + BigInt::from(k.pool_deposit) * n_retire { "helper_counts_pool_retirement_refund".to_string() } else { "helper_implicit_input_differs".to_string() };
                    out.violate("C20.helper_implicit_input", &class, format!("op {}: get_implicit_input = {} but withdrawals {} + refunds {} = {} (cert tags {})", op, d, wsum, refund, implicit, tagset));
                }
            }
            Err(_) => {
                if fits(&implicit) {
                    out.violate("C20.helper_implicit_input", "helper_implicit_input_error_although_fits", format!("op {}: get_implicit_input failed but the total {} fits in 64 bits", op, implicit));
                }
            }
        }
        // builder vs node
        match builder.get_deposit() {
            Ok(d) => {
                let d = BigInt::from(u64::from(d));
                if d != dep {
                    out.violate("C20.builder_deposit", "builder_deposit_differs", format!("op {}: TransactionBuilder::get_deposit = {} but the ledger charges {} for the emitted body", op, d, dep));
                }
            }
            Err(_) => {
                if fits(&dep) {
                    out.violate("C20.builder_deposit", "builder_deposit_error_although_fits", format!("op {}: builder get_deposit failed but {} fits", op, dep));
                }
            }
        }
        match builder.get_implicit_input() {
            Ok(val) => {
                let d = BigInt::from(u64::from(val.coin()));
                if d != implicit {
                    out.violate("C20.builder_implicit_input", "builder_implicit_input_differs", format!("op {}: TransactionBuilder::get_implicit_input = {} but the ledger pays {} for the emitted body", op, d, implicit));
                }
            }
            Err(_) => {
                if fits(&implicit) {
                    out.violate("C20.builder_implicit_input", "builder_implicit_input_error_although_fits", format!("op {}: builder get_implicit_input failed but {} fits", op, implicit));
                }
            }
        }
        // the same withdrawals, handed to the typed map by the same sequence of set / replace calls the
        // history made on the builder: helper on such a body = the builder's own figure
        {
            let last_reset = sc.ops.iter().enumerate().take(op).filter(|(_, o)| matches!(o, Op::RemoveWithdrawals)).map(|(i, _)| i + 1).last().unwrap_or(0);
            let mut typed = csl::Withdrawals::new();
            let mut calls = 0;
            let mut replaced = 0;
            for (i, o) in sc.ops.iter().enumerate().take(op).skip(last_reset) {
                if !h.results.get(i).map_or(false, |r| r.is_ok()) {
                    continue;
                }
                match o {
                    Op::Wdr(c, amt, _) => {
                        if typed.insert(&sc.world.reward_address(c), &csl::BigNum::from(*amt)).is_some() {
                            replaced += 1;
                        }
                        calls += 1;
                    }
                    Op::SetWithdrawalsLegacy => {
                        // the old setter was handed the key-credential accounts only
                        let mut keep = csl::Withdrawals::new();
                        let keys = typed.keys();
                        for j in 0..keys.len() {
                            let ra = keys.get(j);
                            if !ra.payment_cred().has_script_hash() {
                                if let Some(c) = typed.get(&ra) {
                                    keep.insert(&ra, &c);
                                }
                            }
                        }
                        typed = keep;
                    }
                    _ => {}
                }
            }
            if calls > 0 {
                let mut body2 = csl::TransactionBody::new_tx_body(&csl::TransactionInputs::new(), &csl::TransactionOutputs::new(), &csl::BigNum::from(0u64));
                body2.set_withdrawals(&typed);
                if let Some(cs) = body.certs() {
                    body2.set_certs(&cs);
                }
                out.count("c20.same_sequence_bodies_checked", 1);
                if replaced > 0 {
                    out.count("c20.same_sequence_with_replaced_account", 1);
                }
                let a = csl::get_implicit_input(&body2, &csl::BigNum::from(k.pool_deposit), &csl::BigNum::from(k.key_deposit)).ok().map(|v| u64::from(v.coin()));
                let b2 = builder.get_implicit_input().ok().map(|v| u64::from(v.coin()));
                if a != b2 {
                    out.violate("C20.same_sequence", "helper_and_builder_differ_on_the_same_withdrawal_calls", format!("op {}: get_implicit_input on a body whose withdrawal map was filled by the history's {} set/replace calls = {:?}, the builder's figure = {:?}", op, calls, a, b2));
                }
            }
        }
        // the same proposals in the typed collection, filled the way a peer would: the first ones decoded from a
        // tagged set, the rest added one by one - and the first one handed over again (it must not count twice)
        if let Some(props) = body.voting_proposals() {
            if props.len() >= 1 {
                let k1 = (props.len() + 1) / 2;
                let mut first = csl::VotingProposals::new();
                for i in 0..k1 {
                    first.add(&props.get(i));
                }
                if let Ok(mut typed) = csl::VotingProposals::from_bytes(first.to_bytes()) {
                    for i in k1..props.len() {
                        typed.add(&props.get(i));
                    }
                    typed.add(&props.get(0));
                    let mut body2 = csl::TransactionBody::new_tx_body(&csl::TransactionInputs::new(), &csl::TransactionOutputs::new(), &csl::BigNum::from(0u64));
                    body2.set_voting_proposals(&typed);
                    if let Some(cs) = body.certs() {
                        body2.set_certs(&cs);
                    }
                    out.count("c20.same_sequence_proposal_bodies_checked", 1);
                    let a = csl::get_deposit(&body2, &csl::BigNum::from(k.pool_deposit), &csl::BigNum::from(k.key_deposit)).ok().map(u64::from);
                    let b2 = builder.get_deposit().ok().map(u64::from);
                    if a != b2 {
                        out.violate("C20.same_sequence", "helper_and_builder_differ_on_the_same_proposals", format!("op {}: get_deposit on a body whose proposal set was decoded, extended and handed the first proposal again = {:?}, the builder's figure = {:?}", op, a, b2));
                    }
                }
            }
        }
        let _ = &cx;
    }
}

// ------------------------------------------------------------------ profiles / registration

fn profile_c09() -> Profile {
    let mut p = Profile::base("c09");
    p.plutus = 700;
    p.ref_scripts = 400;
    p.extra_datums = 350;
    p.metadata = 400;
    p.mint = 300;
    p.votes = 150;
    p.proposals = 120;
    p.certs = 350;
    p.script_certs = 500;
    p.withdrawals = 300;
    p.tight = 150;
    p
}
fn profile_c10() -> Profile {
    let mut p = profile_c09();
    p.name = "c10";
    p.plutus = 800;
    p.script_certs = 700;
    p.withdrawals = 500;
    p.votes = 300;
    p.proposals = 200;
    p.mint = 450;
    p.metadata = 50;
    p
}
fn profile_c18() -> Profile {
    let mut p = Profile::base("c18");
    p.plutus = 400;
    p.native_inputs = 400;
    p.byron = 300;
    p.ref_scripts = 500;
    p.certs = 500;
    p.script_certs = 400;
    p.withdrawals = 400;
    p.votes = 300;
    p.mint = 400;
    p.req_signers = 400;
    p.ref_inputs = 350;
    p.overlap_keys = 600;
    p.extra_datums = 250;
    p
}
fn profile_c19() -> Profile {
    let mut p = Profile::base("c19");
    p.plutus = 600;
    p.collateral_helper = 450;
    p.collateral_manual = 900;
    p.assets = 600;
    p.width_edges = 300;
    p.tight = 300;
    p.certs = 100;
    p.votes = 30;
    p.proposals = 30;
    p.fine_cpb = 250;
    p
}
fn profile_c20() -> Profile {
    let mut p = Profile::base("c20");
    p.certs = 900;
    p.legacy_certs = 200;
    p.script_certs = 250;
    p.withdrawals = 500;
    p.proposals = 400;
    p.plutus = 80;
    p.mint = 80;
    p.max_ops_scale = 2;
    p.huge = 150;
    p
}

pub const C09: BuilderProp = BuilderProp {
    id: "C09",
    profile: profile_c09,
    eval: eval_c09,
    runs_quick: 100_000,
    runs_thorough: 3_000_000,
    text: "one run = one seeded Plutus wallet session (spends, mints, certificates, withdrawals, votes, proposals with scripts and datums by value / inline / by reference, extra and duplicated datums, cost models V1-V3, metadata and auxiliary scripts; coin selection moves spend indices) — non-trivial = a built transaction carried auxiliary data or redeemers/datums and body[7] / body[11] were recomputed from the byte spans of the emitted auxiliary data, redeemers and datums plus the harness's own language-views encoding; the stand-alone helpers are checked on the same artefacts; distinct = distinct state signature",
    extra_assumptions: &["script data hash judged only when calc_script_data_hash was the last script-affecting operation, as the statement says", "cost models are the harness's deterministic tables passed by the history"],
};
pub const C10: BuilderProp = BuilderProp {
    id: "C10",
    profile: profile_c10,
    eval: eval_c10,
    runs_quick: 100_000,
    runs_thorough: 3_000_000,
    text: "one run = one seeded Plutus wallet session in which every attached redeemer carries a unique integer payload and insertion orders are seeded permutations (F7) — non-trivial = a built transaction whose every redeemer pointer was resolved against the emitted body under the ledger's pointer rules and compared with the item the history attached it to; distinct = distinct state signature",
    extra_assumptions: &["reward accounts and voters are ranked in the ledger's derived order (network, then script credential before key credential, then hash; voters: committee, DRep, pool)"],
};
pub const C18: BuilderProp = BuilderProp {
    id: "C18",
    profile: profile_c18,
    eval: eval_c18,
    runs_quick: 100_000,
    runs_thorough: 3_000_000,
    text: "one run = one seeded wallet session mixing key, Byron, native and Plutus inputs, collateral, certificates, withdrawals, votes, mints and required signers with overlapping key hashes and scripts by value or by reference — non-trivial = a built transaction whose required scripts/datums/redeemers were derived from the emitted body and the world and looked up in the witness set / reference inputs, and whose full_size() was compared with the byte length after signing with exactly the distinct required keys; distinct = distinct state signature",
    extra_assumptions: &["keys declared on native script sources are native-script signers; signers declared on Plutus sources are also listed as required signers by the history", "a script provided both by witness and by reference is not judged (extraneousness is not in the statement)"],
};
pub const C19: BuilderProp = BuilderProp {
    id: "C19",
    profile: profile_c19,
    eval: eval_c19,
    runs_quick: 100_000,
    runs_thorough: 3_000_000,
    text: "one run = one seeded wallet session with collateral inputs (pure ADA and asset-carrying) and one of the three collateral-setting paths (explicit return, explicit total, percentage helper running a full selection), incl. failing helpers after which the session continues (F4) — non-trivial = a built body whose fields 13/16/17 were checked as a whole-value equation against ground-truth collateral UTxOs, return min-ADA, percentage, or a failed attempt whose residue was inspected; distinct = distinct state signature",
    extra_assumptions: &["judged only when a helper was the last collateral-affecting operation before the build"],
};
pub const C20: BuilderProp = BuilderProp {
    id: "C20",
    profile: profile_c20,
    eval: eval_c20,
    runs_quick: 100_000,
    runs_thorough: 3_000_000,
    text: "one run = one seeded session over certificates of all kinds (explicit and parameter-based amounts, key and script credentials), withdrawals and proposals in seeded order — non-trivial = a body (built, or forced from the final builder state) with at least one certificate/withdrawal/proposal on which get_deposit / get_implicit_input, the builder's own figures and the node's table were compared; distinct = distinct state signature",
    extra_assumptions: &["claimed for the agreement between helpers, builder and node on bodies the sessions reach (built, or forced out of the final builder state when balancing is impossible); totals beyond 64 bits are reached with explicit deposits / withdrawals near 2^63 and 2^64 and must be reported as errors by helpers and builder alike"],
};

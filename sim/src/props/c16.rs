//! C16 — duplicate-free sets, canonical asset maps, deterministic builds.
//! Three actors: collection histories (F5 restart, F6 duplicated delivery, F8 foreign encodings),
//! asset-map permutations, and repeated builds of unchanged builders under fresh hash keys (S2).
use crate::cbor::{self, Kind};
use crate::ctl::{RngPlan, Sampler, Sim};
use crate::exec;
use crate::prng::{mix, Rng};
use crate::props::builder::common;
use crate::runner::{Outcome, Prop, Tier};
use crate::scn::*;
use crate::sess;
use crate::wallet::{self, Profile};
use crate::world::*;
use cardano_serialization_lib as csl;
use serde::{Deserialize, Serialize};
use std::collections::BTreeSet;

#[derive(Serialize, Deserialize, Clone, Copy, Debug, PartialEq, Eq)]
pub enum CollKind {
    TxInputs,
    KeyHashes,
    Credentials,
    Certificates,
    VotingProposals,
    Vkeywitnesses,
    BootstrapWitnesses,
    WsNativeScripts,
    WsPlutusScripts,
    WsPlutusData,
}
const KINDS: [CollKind; 10] = [
    CollKind::TxInputs,
    CollKind::KeyHashes,
    CollKind::Credentials,
    CollKind::Certificates,
    CollKind::VotingProposals,
    CollKind::Vkeywitnesses,
    CollKind::BootstrapWitnesses,
    CollKind::WsNativeScripts,
    CollKind::WsPlutusScripts,
    CollKind::WsPlutusData,
];

#[derive(Serialize, Deserialize, Clone, Debug, PartialEq)]
pub enum CollOp {
    Add(u8),
    /// replace the object by one decoded from harness-written bytes listing these ids
    Decode {
        ids: Vec<u8>,
        tagged: bool,
        indefinite: bool,
        wide: bool,
        /// non-zero: element occurrences are re-encoded as another producer would write them (wide heads,
        /// indefinite arrays, nested sets without tag 258) - equal values, other bytes
        #[serde(default)]
        alt: u8,
    },
    /// add an element that was itself decoded from another producer's bytes
    AddAlt(u8, u8),
    FromJson(Vec<u8>),
    CloneIt,
    /// the elements go through a builder that hands the set out again (`CertificatesBuilder::build`); the history continues on that set
    ViaBuilder,
    RestartBytes,
    RestartHex,
    RestartJson,
}

#[derive(Serialize, Deserialize, Clone, Debug)]
pub struct CollCase {
    pub kind: CollKind,
    pub ops: Vec<CollOp>,
    pub hash_seed: u64,
}

#[derive(Serialize, Deserialize, Clone, Debug)]
pub struct AssetCase {
    /// (policy id, name bytes, quantity) in insertion order
    pub entries: Vec<(u8, Vec<u8>, i64)>,
    pub mint: bool,
    pub hash_seed: u64,
}

#[derive(Serialize, Deserialize, Clone, Debug)]
pub enum Case {
    Session(Scenario),
    Coll(CollCase),
    Assets(AssetCase),
}

// ---------------------------------------------------------------- collection objects

trait Obj {
    fn add(&mut self, id: u8);
    /// add an element decoded from these bytes; false if the decoder refuses them or the kind has no such path
    fn add_bytes(&mut self, _b: &[u8]) -> bool {
        false
    }
    /// witness-set lists: hand the list over again with this element coming out of the element decoder
    fn add_decoded(&mut self, _id: u8) -> bool {
        false
    }
    fn bytes(&self) -> Vec<u8>;
    fn json(&self) -> Result<String, String>;
    fn boxed_clone(&self) -> Box<dyn Obj>;
    /// the same set as a builder hands it out after having been given the elements one by one (None: no such path)
    fn via_builder(&self) -> Option<Box<dyn Obj>> {
        None
    }
}

macro_rules! coll_obj {
    ($name:ident, $ty:ty, $ety:ty, $elem:expr, $via:expr) => {
        struct $name($ty);
        impl Obj for $name {
            fn add(&mut self, id: u8) {
                let e = $elem(id);
                self.0.add(&e);
            }
            fn add_bytes(&mut self, b: &[u8]) -> bool {
                match <$ety>::from_bytes(b.to_vec()) {
                    Ok(e) => {
                        self.0.add(&e);
                        true
                    }
                    Err(_) => false,
                }
            }
            fn bytes(&self) -> Vec<u8> {
                self.0.to_bytes()
            }
            fn json(&self) -> Result<String, String> {
                self.0.to_json().map_err(|e| format!("{:?}", e))
            }
            fn boxed_clone(&self) -> Box<dyn Obj> {
                Box::new($name(self.0.clone()))
            }
            fn via_builder(&self) -> Option<Box<dyn Obj>> {
                let f: fn(&$ty) -> Option<$ty> = $via;
                f(&self.0).map(|x| Box::new($name(x)) as Box<dyn Obj>)
            }
        }
    };
}

fn e_input(id: u8) -> csl::TransactionInput {
    csl::TransactionInput::new(&csl::TransactionHash::from_bytes(tx_hash_bytes(900 + (id / 2) as u32).to_vec()).unwrap(), (id % 2) as u32 * 7)
}
fn e_keyhash(id: u8) -> csl::Ed25519KeyHash {
    key(id as u16).hash.clone()
}
fn e_cred(id: u8) -> csl::Credential {
    if id % 2 == 0 {
        csl::Credential::from_keyhash(&key(id as u16 / 2).hash)
    } else {
        csl::Credential::from_scripthash(&csl::ScriptHash::from_bytes(raw_policy(id as u16).to_vec()).unwrap())
    }
}
fn e_cert(id: u8) -> csl::Certificate {
    let c = csl::Credential::from_keyhash(&key(id as u16 % 3).hash);
    if id == 1 || id == 5 {
        // the same two rewards listed in two orders: the map is insertion ordered, so these are two
        // different elements (with different bytes)
        let mut m = csl::MIRToStakeCredentials::new();
        let (a, b) = (csl::Credential::from_keyhash(&key(7).hash), csl::Credential::from_keyhash(&key(8).hash));
        let (ra, rb) = (csl::Int::new_i32(10), csl::Int::new_i32(20));
        if id == 1 {
            m.insert(&a, &ra);
            m.insert(&b, &rb);
        } else {
            m.insert(&b, &rb);
            m.insert(&a, &ra);
        }
        return csl::Certificate::new_move_instantaneous_rewards_cert(&csl::MoveInstantaneousRewardsCert::new(&csl::MoveInstantaneousReward::new_to_stake_creds(csl::MIRPot::Reserves, &m)));
    }
    if id == 4 || id == 6 {
        // the one certificate that nests a set (pool owners); the two share their operator and
        // differ in everything else - they are two different elements
        let mut owners = csl::Ed25519KeyHashes::new();
        owners.add(&key(id as u16).hash);
        owners.add(&key(id as u16 + 1).hash);
        let params = csl::PoolParams::new(
            &key(4).hash,
            &csl::VRFKeyHash::from_bytes(blake2b256(&[id, 1]).to_vec()).unwrap(),
            &csl::BigNum::from(1000u64 + id as u64),
            &csl::BigNum::from(340_000_000u64),
            &csl::UnitInterval::new(&csl::BigNum::from(1u64), &csl::BigNum::from(20u64)),
            &csl::RewardAddress::new(0, &c),
            &owners,
            &csl::Relays::new(),
            None,
        );
        return csl::Certificate::new_pool_registration(&csl::PoolRegistration::new(&params));
    }
    match id % 4 {
        0 => csl::Certificate::new_stake_registration(&csl::StakeRegistration::new(&c)),
        1 => csl::Certificate::new_stake_deregistration(&csl::StakeDeregistration::new(&c)),
        2 => csl::Certificate::new_stake_delegation(&csl::StakeDelegation::new(&c, &key(9).hash)),
        _ => csl::Certificate::new_drep_registration(&csl::DRepRegistration::new(&c, &csl::BigNum::from(id as u64 * 1000))),
    }
}
fn e_proposal(id: u8) -> csl::VotingProposal {
    let ra = csl::RewardAddress::new(0, &csl::Credential::from_keyhash(&key(id as u16 % 3).hash));
    let act = if id % 5 == 3 {
        // an action that nests a set (committee members to remove)
        let mut rm = csl::Credentials::new();
        rm.add(&csl::Credential::from_keyhash(&key(id as u16).hash));
        rm.add(&csl::Credential::from_keyhash(&key(id as u16 + 1).hash));
        let cm = csl::Committee::new(&csl::UnitInterval::new(&csl::BigNum::from(2u64), &csl::BigNum::from(3u64)));
        csl::GovernanceAction::new_new_committee_action(&csl::UpdateCommitteeAction::new(&cm, &rm))
    } else if id % 2 == 0 {
        csl::GovernanceAction::new_info_action(&csl::InfoAction::new())
    } else {
        csl::GovernanceAction::new_no_confidence_action(&csl::NoConfidenceAction::new())
    };
    csl::VotingProposal::new(&act, &exec::anchor(id as u64 / 2), &ra, &csl::BigNum::from(1000u64 * (id as u64 / 4)))
}
fn e_vkeywit(id: u8) -> csl::Vkeywitness {
    let th = csl::TransactionHash::from_bytes(vec![7u8; 32]).unwrap();
    csl::make_vkey_witness(&th, &key(id as u16).sk)
}
fn e_bootwit(id: u8) -> csl::BootstrapWitness {
    let th = csl::TransactionHash::from_bytes(vec![7u8; 32]).unwrap();
    let b = byron(id as u16, 764824073);
    csl::make_icarus_bootstrap_witness(&th, &b.addr, &b.xprv)
}
fn e_native(id: u8) -> csl::NativeScript {
    if id % 2 == 0 {
        Ns::Pk(id as u16).to_csl()
    } else {
        Ns::All(vec![Ns::Pk(id as u16), Ns::After(id as u64)]).to_csl()
    }
}
fn e_plutus(id: u8) -> csl::PlutusScript {
    csl::PlutusScript::new_with_version(plutus_bytes(10 + (id / 3) as u32, id), &language(1 + id % 3))
}
fn e_datum(id: u8) -> csl::PlutusData {
    match id % 3 {
        0 => Pd::Int(id as i64).to_csl(),
        1 => Pd::Constr(id as u64, vec![Pd::Bytes(3, id)]).to_csl(),
        _ => Pd::List(vec![Pd::Int(id as i64), Pd::Int(1)]).to_csl(),
    }
}

coll_obj!(OInputs, csl::TransactionInputs, csl::TransactionInput, e_input, |_| None);
coll_obj!(OKeyHashes, csl::Ed25519KeyHashes, csl::Ed25519KeyHash, e_keyhash, |_| None);
coll_obj!(OCreds, csl::Credentials, csl::Credential, e_cred, |_| None);
coll_obj!(OCerts, csl::Certificates, csl::Certificate, e_cert, |c| {
    // the certificates builder keeps what it is given in order of arrival and hands the set out again
    let mut b = csl::CertificatesBuilder::new();
    for i in 0..c.len() {
        if b.add(&c.get(i)).is_err() {
            return None;
        }
    }
    Some(b.build())
});
coll_obj!(OProps, csl::VotingProposals, csl::VotingProposal, e_proposal, |_| None);
coll_obj!(OVkeys, csl::Vkeywitnesses, csl::Vkeywitness, e_vkeywit, |_| None);
coll_obj!(OBoots, csl::BootstrapWitnesses, csl::BootstrapWitness, e_bootwit, |_| None);

/// witness-set fields are exercised through the typed setters: the object is a witness set plus
/// the list that was handed to the setter
struct OWs {
    kind: CollKind,
    ids: Vec<u8>,
    /// positions (into `ids`) whose element arrives through the element decoder instead of the constructors
    decoded: Vec<usize>,
    ws: csl::TransactionWitnessSet,
}
impl OWs {
    fn sync(&mut self) {
        match self.kind {
            CollKind::WsNativeScripts => {
                let mut l = csl::NativeScripts::new();
                for (pos, i) in self.ids.iter().enumerate() {
                    let plain = e_native(*i);
                    let via_decoder = if self.decoded.contains(&pos) { tag_nested_script_lists(&plain.to_bytes()).and_then(|b| csl::NativeScript::from_bytes(b).ok()) } else { None };
                    l.add(&via_decoder.unwrap_or(plain));
                }
                self.ws.set_native_scripts(&l);
            }
            CollKind::WsPlutusScripts => {
                let mut l = csl::PlutusScripts::new();
                for i in &self.ids {
                    l.add(&e_plutus(*i));
                }
                self.ws.set_plutus_scripts(&l);
            }
            _ => {
                let mut l = csl::PlutusList::new();
                for i in &self.ids {
                    l.add(&e_datum(*i));
                }
                self.ws.set_plutus_data(&l);
            }
        }
    }
}
impl Obj for OWs {
    fn add(&mut self, id: u8) {
        self.ids.push(id);
        // every other time the caller does not rebuild its list but takes the collection back out of the
        // witness set, adds to that and hands it over again
        if self.ids.len() % 2 == 0 {
            match self.kind {
                CollKind::WsNativeScripts => {
                    if let Some(mut l) = self.ws.native_scripts() {
                        l.add(&e_native(id));
                        self.ws.set_native_scripts(&l);
                        return;
                    }
                }
                CollKind::WsPlutusScripts => {
                    if let Some(mut l) = self.ws.plutus_scripts() {
                        l.add(&e_plutus(id));
                        self.ws.set_plutus_scripts(&l);
                        return;
                    }
                }
                _ => {
                    if let Some(mut l) = self.ws.plutus_data() {
                        l.add(&e_datum(id));
                        self.ws.set_plutus_data(&l);
                        return;
                    }
                }
            }
        }
        self.sync();
    }
    fn bytes(&self) -> Vec<u8> {
        self.ws.to_bytes()
    }
    fn json(&self) -> Result<String, String> {
        self.ws.to_json().map_err(|e| format!("{:?}", e))
    }
    fn boxed_clone(&self) -> Box<dyn Obj> {
        Box::new(OWs { kind: self.kind, ids: self.ids.clone(), decoded: self.decoded.clone(), ws: self.ws.clone() })
    }
    fn add_decoded(&mut self, id: u8) -> bool {
        if self.kind != CollKind::WsNativeScripts {
            return false;
        }
        self.decoded.push(self.ids.len());
        self.ids.push(id);
        self.sync();
        true
    }
}

fn elem_bytes(kind: CollKind, id: u8) -> Vec<u8> {
    match kind {
        CollKind::TxInputs => e_input(id).to_bytes(),
        CollKind::KeyHashes => {
            let mut o = vec![];
            cbor::w_bytes(&mut o, &key(id as u16).hash_bytes);
            o
        }
        CollKind::Credentials => e_cred(id).to_bytes(),
        CollKind::Certificates => e_cert(id).to_bytes(),
        CollKind::VotingProposals => e_proposal(id).to_bytes(),
        CollKind::Vkeywitnesses => e_vkeywit(id).to_bytes(),
        CollKind::BootstrapWitnesses => e_bootwit(id).to_bytes(),
        CollKind::WsNativeScripts => e_native(id).to_bytes(),
        CollKind::WsPlutusScripts => {
            let mut o = vec![];
            cbor::w_bytes(&mut o, &e_plutus(id).bytes());
            o
        }
        CollKind::WsPlutusData => e_datum(id).to_bytes(),
    }
}

fn new_obj(kind: CollKind) -> Box<dyn Obj> {
    match kind {
        CollKind::TxInputs => Box::new(OInputs(csl::TransactionInputs::new())),
        CollKind::KeyHashes => Box::new(OKeyHashes(csl::Ed25519KeyHashes::new())),
        CollKind::Credentials => Box::new(OCreds(csl::Credentials::new())),
        CollKind::Certificates => Box::new(OCerts(csl::Certificates::new())),
        CollKind::VotingProposals => Box::new(OProps(csl::VotingProposals::new())),
        CollKind::Vkeywitnesses => Box::new(OVkeys(csl::Vkeywitnesses::new())),
        CollKind::BootstrapWitnesses => Box::new(OBoots(csl::BootstrapWitnesses::new())),
        k => Box::new(OWs { kind: k, ids: vec![], decoded: vec![], ws: csl::TransactionWitnessSet::new() }),
    }
}

fn from_bytes(kind: CollKind, b: &[u8]) -> Result<Box<dyn Obj>, String> {
    let e = |e: csl::DeserializeError| format!("{:?}", e);
    Ok(match kind {
        CollKind::TxInputs => Box::new(OInputs(csl::TransactionInputs::from_bytes(b.to_vec()).map_err(e)?)),
        CollKind::KeyHashes => Box::new(OKeyHashes(csl::Ed25519KeyHashes::from_bytes(b.to_vec()).map_err(e)?)),
        CollKind::Credentials => Box::new(OCreds(csl::Credentials::from_bytes(b.to_vec()).map_err(e)?)),
        CollKind::Certificates => Box::new(OCerts(csl::Certificates::from_bytes(b.to_vec()).map_err(e)?)),
        CollKind::VotingProposals => Box::new(OProps(csl::VotingProposals::from_bytes(b.to_vec()).map_err(e)?)),
        CollKind::Vkeywitnesses => Box::new(OVkeys(csl::Vkeywitnesses::from_bytes(b.to_vec()).map_err(e)?)),
        CollKind::BootstrapWitnesses => Box::new(OBoots(csl::BootstrapWitnesses::from_bytes(b.to_vec()).map_err(e)?)),
        k => Box::new(OWs { kind: k, ids: vec![], decoded: vec![], ws: csl::TransactionWitnessSet::from_bytes(b.to_vec()).map_err(e)? }),
    })
}

fn from_json(kind: CollKind, j: &str) -> Result<Box<dyn Obj>, String> {
    let e = |e: csl::JsError| format!("{:?}", e);
    Ok(match kind {
        CollKind::TxInputs => Box::new(OInputs(csl::TransactionInputs::from_json(j).map_err(e)?)),
        CollKind::KeyHashes => Box::new(OKeyHashes(csl::Ed25519KeyHashes::from_json(j).map_err(e)?)),
        CollKind::Credentials => Box::new(OCreds(csl::Credentials::from_json(j).map_err(e)?)),
        CollKind::Certificates => Box::new(OCerts(csl::Certificates::from_json(j).map_err(e)?)),
        CollKind::VotingProposals => Box::new(OProps(csl::VotingProposals::from_json(j).map_err(e)?)),
        CollKind::Vkeywitnesses => Box::new(OVkeys(csl::Vkeywitnesses::from_json(j).map_err(e)?)),
        CollKind::BootstrapWitnesses => Box::new(OBoots(csl::BootstrapWitnesses::from_json(j).map_err(e)?)),
        k => Box::new(OWs { kind: k, ids: vec![], decoded: vec![], ws: csl::TransactionWitnessSet::from_json(j).map_err(e)? }),
    })
}

fn ws_field(kind: CollKind) -> Option<u64> {
    match kind {
        CollKind::WsNativeScripts => Some(1),
        CollKind::WsPlutusData => Some(4),
        CollKind::WsPlutusScripts => None, // spread over 3, 6, 7 by language
        _ => None,
    }
}

/// ids the serialized object holds, in order, as read by the harness reader
fn read_ids(kind: CollKind, bytes: &[u8], universe: &[(u8, Vec<u8>)]) -> Result<Vec<u8>, String> {
    let n = cbor::parse(bytes).map_err(|e| e.0)?;
    let mut items: Vec<&cbor::Node> = vec![];
    match kind {
        CollKind::WsNativeScripts | CollKind::WsPlutusData => {
            if let Some(f) = n.get(ws_field(kind).unwrap()) {
                items.extend(f.set_items().ok_or("field is not a set")?.iter());
            }
        }
        CollKind::WsPlutusScripts => {
            for k in [3u64, 6, 7] {
                if let Some(f) = n.get(k) {
                    items.extend(f.set_items().ok_or("field is not a set")?.iter());
                }
            }
        }
        _ => items.extend(n.set_items().ok_or("not a set")?.iter()),
    }
    let mut ids = vec![];
    for it in items {
        let b = &bytes[it.start..it.end];
        // compare semantically: re-emit plainly (the element encoding itself is not this property's business)
        let mut plain = vec![];
        cbor::emit_plain(it, &mut plain);
        let found = universe.iter().find(|(_, eb)| eb == b || {
            match cbor::parse(eb) {
                Ok(en) => {
                    let mut p2 = vec![];
                    cbor::emit_plain(&en, &mut p2);
                    p2 == plain
                }
                Err(_) => false,
            }
        });
        match found {
            Some((id, _)) => ids.push(*id),
            None => return Err(format!("unknown element {}", hex::encode(&b[..b.len().min(12)]))),
        }
    }
    Ok(ids)
}

/// the same element as another producer may have written it
fn alt_bytes(b: &[u8], alt: u8, pos: usize) -> Vec<u8> {
    if alt == 0 {
        return b.to_vec();
    }
    let mut r = crate::prng::Rng::new(mix(alt as u64, pos as u64));
    if r.chance(1, 3) {
        return b.to_vec();
    }
    match cbor::parse(b) {
        Ok(n) => {
            let mut f = cbor::Foreign::new(&mut r, 120, 150, 0, 0);
            f.p_untag = 600;
            let mut o = vec![];
            f.emit(&n, &mut o);
            o
        }
        Err(_) => b.to_vec(),
    }
}

fn dedup(ids: &[u8]) -> Vec<u8> {
    let mut out = vec![];
    for i in ids {
        if !out.contains(i) {
            out.push(*i);
        }
    }
    out
}

const UNIVERSE: u8 = 7;
/// collections whose elements are made from a key or outpoint number have a wider universe: some
/// implementations change their ways beyond a handful of elements
fn universe_of(kind: CollKind) -> u8 {
    match kind {
        CollKind::TxInputs | CollKind::KeyHashes | CollKind::Vkeywitnesses | CollKind::BootstrapWitnesses => 14,
        _ => UNIVERSE,
    }
}

pub fn run_coll(c: &CollCase) -> Outcome {
    let plan = RngPlan { sampler: Sampler::Uniform, seed: 0, forced: None };
    let sim = Sim::install(&plan, c.hash_seed);
    let mut out = Outcome::default();
    let kind = c.kind;
    let uni = universe_of(kind);
    let universe: Vec<(u8, Vec<u8>)> = (0..uni).map(|i| (i, elem_bytes(kind, i))).collect();
    let is_ws = matches!(kind, CollKind::WsNativeScripts | CollKind::WsPlutusScripts | CollKind::WsPlutusData);
    let mut obj = new_obj(kind);
    let mut model: Vec<u8> = vec![];
    // the object a copy was taken from stays with its owner, who adds nothing more: it is an unchanged collection
    let mut held: Option<(Box<dyn Obj>, Vec<u8>, usize)> = None;
    let mut sig = kind as u64;
    for (i, op) in c.ops.iter().enumerate() {
        out.steps += 1;
        let mut applied = true;
        match op {
            CollOp::Add(id) => {
                obj.add(*id % uni);
                if !model.contains(&(*id % uni)) {
                    model.push(*id % uni);
                } else {
                    out.count("fault.F6_duplicate_add", 1);
                }
            }
            CollOp::AddAlt(id, alt) => {
                let id = *id % uni;
                let eb = alt_bytes(&universe[id as usize].1, *alt, 0);
                if is_ws {
                    if obj.add_decoded(id) {
                        out.count("fault.F8_element_in_other_encoding", 1);
                        if !model.contains(&id) {
                            model.push(id);
                        } else {
                            out.count("fault.F6_duplicate_add", 1);
                        }
                    } else {
                        applied = false;
                    }
                } else if !obj.add_bytes(&eb) {
                    out.count("c16.decoder_rejected_encoding", 1);
                    applied = false;
                } else {
                    out.count("fault.F8_element_in_other_encoding", (eb != universe[id as usize].1) as u64);
                    if !model.contains(&id) {
                        model.push(id);
                    } else {
                        out.count("fault.F6_duplicate_add", 1);
                    }
                }
            }
            CollOp::Decode { ids, tagged, indefinite, wide, .. } if matches!(kind, CollKind::WsNativeScripts | CollKind::WsPlutusData) => {
                // a list decoded from a peer's bytes (with repeats) is handed unmodified to the typed setter
                let ids: Vec<u8> = ids.iter().map(|x| x % uni).collect();
                let mut b = vec![];
                if *tagged {
                    cbor::w_tag(&mut b, 258);
                }
                if *indefinite {
                    b.push(0x9f);
                } else {
                    cbor::head_w(&mut b, 4, ids.len() as u64, if *wide { 2 } else { 0 });
                }
                for id in &ids {
                    b.extend_from_slice(&universe[*id as usize].1);
                }
                if *indefinite {
                    b.push(0xff);
                }
                out.count("fault.F8_foreign_encoding_decodes", 1);
                if dedup(&ids).len() != ids.len() {
                    out.count("fault.F6_repeated_element_in_bytes", 1);
                }
                let mut ws = csl::TransactionWitnessSet::new();
                let ok = if kind == CollKind::WsPlutusData {
                    match csl::PlutusList::from_bytes(b) {
                        Ok(l) => {
                            ws.set_plutus_data(&l);
                            true
                        }
                        Err(_) => false,
                    }
                } else {
                    match csl::NativeScripts::from_bytes(b) {
                        Ok(l) => {
                            ws.set_native_scripts(&l);
                            true
                        }
                        Err(_) => false,
                    }
                };
                if ok && !ids.is_empty() {
                    obj = Box::new(OWs { kind, ids: dedup(&ids), decoded: vec![], ws });
                    model = dedup(&ids);
                } else {
                    if !ok {
                        out.count("c16.decoder_rejected_encoding", 1);
                    }
                    applied = false;
                }
            }
            CollOp::Decode { ids, tagged, indefinite, wide, alt } => {
                if is_ws {
                    applied = false;
                } else {
                    let ids: Vec<u8> = ids.iter().map(|x| x % uni).collect();
                    let mut b = vec![];
                    if *tagged {
                        cbor::w_tag(&mut b, 258);
                    }
                    if *indefinite {
                        b.push(0x9f);
                    } else {
                        cbor::head_w(&mut b, 4, ids.len() as u64, if *wide { 2 } else { 0 });
                    }
                    for (pos, id) in ids.iter().enumerate() {
                        let eb = alt_bytes(&universe[*id as usize].1, *alt, pos);
                        if eb != universe[*id as usize].1 {
                            out.count("fault.F8_element_in_other_encoding", 1);
                        }
                        b.extend_from_slice(&eb);
                    }
                    if *indefinite {
                        b.push(0xff);
                    }
                    out.count("fault.F8_foreign_encoding_decodes", 1);
                    if dedup(&ids).len() != ids.len() {
                        out.count("fault.F6_repeated_element_in_bytes", 1);
                    }
                    match from_bytes(kind, &b) {
                        Ok(o) => {
                            obj = o;
                            model = dedup(&ids);
                        }
                        Err(e) => {
                            out.count("c16.decoder_rejected_encoding", 1);
                            applied = false;
                            // the statement speaks of bytes that repeat an element: if the very same encoding is
                            // accepted once the repeats are taken out, the repeats are what the decoder refused
                            let d = dedup(&ids);
                            if d.len() != ids.len() && !*tagged {
                                let mut b2 = vec![];
                                if *indefinite {
                                    b2.push(0x9f);
                                } else {
                                    cbor::head_w(&mut b2, 4, d.len() as u64, if *wide { 2 } else { 0 });
                                }
                                let mut seen: Vec<u8> = vec![];
                                for (pos, id) in ids.iter().enumerate() {
                                    if seen.contains(id) {
                                        continue;
                                    }
                                    seen.push(*id);
                                    b2.extend_from_slice(&alt_bytes(&universe[*id as usize].1, *alt, pos));
                                }
                                if *indefinite {
                                    b2.push(0xff);
                                }
                                if from_bytes(kind, &b2).is_ok() {
                                    out.violate("C16.collection", &format!("repeated_element_rejected/{:?}", kind), format!("{:?} op {}: an untagged list that repeats an element does not decode ({}), the same list without the repeats does", kind, i, e));
                                    break;
                                }
                            }
                        }
                    }
                }
            }
            CollOp::FromJson(ids) => {
                if is_ws {
                    applied = false;
                } else {
                    let ids: Vec<u8> = ids.iter().map(|x| x % uni).collect();
                    let mut arr = vec![];
                    let mut ok = true;
                    for id in &ids {
                        let mut single = new_obj(kind);
                        single.add(*id);
                        match single.json().ok().and_then(|j| serde_json::from_str::<serde_json::Value>(&j).ok()) {
                            Some(serde_json::Value::Array(a)) if a.len() == 1 => arr.push(a[0].clone()),
                            _ => ok = false,
                        }
                    }
                    if !ok {
                        applied = false;
                    } else {
                        if dedup(&ids).len() != ids.len() {
                            out.count("fault.F6_repeated_element_in_json", 1);
                        }
                        match from_json(kind, &serde_json::Value::Array(arr).to_string()) {
                            Ok(o) => {
                                obj = o;
                                model = dedup(&ids);
                            }
                            Err(_) => {
                                out.count("c16.json_rejected", 1);
                                applied = false;
                            }
                        }
                    }
                }
            }
            CollOp::ViaBuilder => match obj.via_builder() {
                Some(o) => {
                    out.count("c16.sets_handed_out_by_a_builder", 1);
                    obj = o;
                }
                None => applied = false,
            },
            CollOp::CloneIt => {
                let copy = obj.boxed_clone();
                held = Some((std::mem::replace(&mut obj, copy), model.clone(), i));
            }
            CollOp::RestartBytes | CollOp::RestartHex => {
                out.count("fault.F5_restart_from_bytes", 1);
                let b = obj.bytes();
                let b2 = if matches!(op, CollOp::RestartHex) { hex::decode(hex::encode(&b)).unwrap() } else { b };
                match from_bytes(kind, &b2) {
                    Ok(mut o) => {
                        if is_ws {
                            // keep feeding the same list through the setter after the restart
                            if let Some(_) = None::<u8> {}
                            let _ = &mut o;
                        }
                        if is_ws {
                            // a restarted witness set is a new object; later Adds go through a fresh list
                            let ows = OWs { kind, ids: model.clone(), decoded: vec![], ws: csl::TransactionWitnessSet::from_bytes(b2.clone()).unwrap() };
                            obj = Box::new(ows);
                        } else {
                            obj = o;
                        }
                    }
                    Err(e) => {
                        out.violate("C16.restart", "own_bytes_do_not_decode", format!("{:?} op {}: the collection's own bytes do not decode: {}", kind, i, e));
                        break;
                    }
                }
            }
            CollOp::RestartJson => {
                out.count("fault.F5_restart_from_json", 1);
                if is_ws {
                    applied = false;
                } else {
                    match obj.json().and_then(|j| from_json(kind, &j)) {
                        Ok(o) => obj = o,
                        Err(_) => {
                            out.count("c16.json_rejected", 1);
                            applied = false;
                        }
                    }
                }
            }
        }
        if !applied {
            continue;
        }
        // invariant after every step: serialized form = model (each element once, first-insertion order)
        let b = obj.bytes();
        match read_ids(kind, &b, &universe) {
            Ok(ids) => {
                out.nontrivial = true;
                out.count("c16.collection_steps_checked", 1);
                let mut want = model.clone();
                if kind == CollKind::WsPlutusScripts {
                    // spread over three fields by language: order within a language is kept
                    let lang = |id: &u8| id % 3;
                    want.sort_by_key(lang);
                }
                if ids != want {
                    let s: BTreeSet<u8> = ids.iter().cloned().collect();
                    let class = if s.len() != ids.len() {
                        "element_serialized_twice"
                    } else if s == want.iter().cloned().collect() {
                        "first_insertion_order_lost"
                    } else {
                        "element_lost_or_invented"
                    };
                    out.violate("C16.collection", &format!("{}/{:?}", class, kind), format!("{:?} op {} ({:?}): serialized ids {:?}, model {:?}", kind, i, op, ids, want));
                    break;
                }
            }
            Err(e) => {
                out.violate("C16.collection", &format!("unreadable/{:?}", kind), format!("{:?} op {}: {}", kind, i, e));
                break;
            }
        }
        // the collection a copy was taken from earlier: nobody touched it since, whatever happened to the copy
        if let Some((h_obj, h_model, at)) = &held {
            let mut want = h_model.clone();
            if kind == CollKind::WsPlutusScripts {
                want.sort_by_key(|id: &u8| id % 3);
            }
            out.count("c16.held_copies_checked", 1);
            match read_ids(kind, &h_obj.bytes(), &universe) {
                Ok(ids) if ids == want => {}
                Ok(ids) => {
                    out.violate("C16.collection", &format!("copy_changed_by_later_history/{:?}", kind), format!("{:?} op {} ({:?}): the collection a copy was taken from at op {} now serializes ids {:?}, it held {:?}", kind, i, op, at, ids, want));
                    break;
                }
                Err(e) => {
                    out.violate("C16.collection", &format!("unreadable/{:?}", kind), format!("{:?} op {}: held copy: {}", kind, i, e));
                    break;
                }
            }
        }
        // credentials that arrive as the keys of an ordered container (committee members): the collection the
        // getter returns holds each once, in the container's order, the same on every call
        if kind == CollKind::Credentials && model.len() >= 2 {
            let mut committee = csl::Committee::new(&csl::UnitInterval::new(&csl::BigNum::from(2u64), &csl::BigNum::from(3u64)));
            for id in &model {
                committee.add_member(&e_cred(*id), 100 + *id as u32);
            }
            let k1 = committee.members_keys().to_bytes();
            let k2 = committee.members_keys().to_bytes();
            let mut want = model.clone();
            want.sort_by(|a, b| e_cred(*a).cmp(&e_cred(*b)));
            out.count("c16.derived_collections_checked", 1);
            match read_ids(kind, &k1, &universe) {
                Ok(ids) if ids == want && k1 == k2 => {}
                Ok(ids) => {
                    let class = if k1 != k2 { "derived_collection_differs_between_calls" } else if ids.len() != want.len() { "derived_collection_repeats_or_loses_elements" } else { "derived_collection_order_lost" };
                    out.violate("C16.collection", &format!("{}/{:?}", class, kind), format!("{:?} op {}: committee members {:?} came back as {:?}", kind, i, want, ids));
                    break;
                }
                Err(e) => {
                    out.violate("C16.collection", &format!("unreadable/{:?}", kind), format!("{:?} op {}: {}", kind, i, e));
                    break;
                }
            }
        }
        sig = mix(sig, match op {
            CollOp::Add(_) => 1,
            CollOp::AddAlt(..) => 12,
            CollOp::Decode { tagged, indefinite, .. } => 2 + *tagged as u64 * 2 + *indefinite as u64,
            CollOp::FromJson(_) => 7,
            CollOp::CloneIt => 8,
            CollOp::ViaBuilder => 13,
            CollOp::RestartBytes => 9,
            CollOp::RestartHex => 10,
            CollOp::RestartJson => 11,
        });
        sig = mix(sig, model.len() as u64);
    }
    out.sig = sig;
    out.digest = mix(sim.digest(), sig);
    drop(sim);
    out
}

pub fn run_assets(c: &AssetCase) -> Outcome {
    let plan = RngPlan { sampler: Sampler::Uniform, seed: 0, forced: None };
    let sim = Sim::install(&plan, c.hash_seed);
    let mut out = Outcome::default();
    out.steps = c.entries.len() as u64;
    let pol = |p: u8| csl::ScriptHash::from_bytes(raw_policy(p as u16).to_vec()).unwrap();
    let bytes = if c.mint {
        let mut m = csl::Mint::new();
        // group by policy in insertion order
        let mut order: Vec<u8> = vec![];
        for (p, _, _) in &c.entries {
            if !order.contains(p) {
                order.push(*p);
            }
        }
        for p in order {
            let mut ma = csl::MintAssets::new();
            for (pp, n, q) in &c.entries {
                if *pp == p && *q != 0 {
                    let iq = if *q > 0 { csl::Int::new(&csl::BigNum::from(*q as u64)) } else { csl::Int::new_negative(&csl::BigNum::from(q.unsigned_abs())) };
                    let _ = ma.insert(&csl::AssetName::new(n.clone()).unwrap(), &iq);
                }
            }
            m.insert(&pol(p), &ma);
        }
        m.to_bytes()
    } else {
        let mut ma = csl::MultiAsset::new();
        for (p, n, q) in &c.entries {
            ma.set_asset(&pol(*p), &csl::AssetName::new(n.clone()).unwrap(), &csl::BigNum::from(q.unsigned_abs()));
        }
        ma.to_bytes()
    };
    match cbor::parse(&bytes) {
        Ok(n) => {
            out.nontrivial = c.entries.len() >= 2;
            out.count("c16.asset_maps_checked", 1);
            if let Some(m) = n.as_map() {
                let pk: Vec<&[u8]> = m.iter().filter_map(|(k, _)| k.as_bytes()).collect();
                // the stand-alone `Mint` type is an insertion-ordered list of (policy, assets) pairs
                // that may even repeat a policy; the statement claims asset bundles and the mint
                // field *the builder emits*, so policy order is judged for bundles only
                if !c.mint {
                    for w in pk.windows(2) {
                        if w[0] >= w[1] {
                            out.violate("C16.asset_order", "policies_not_canonical", format!("policy {} before {}", hex::encode(&w[0][..4]), hex::encode(&w[1][..4])));
                        }
                    }
                }
                for (_, assets) in m {
                    if let Some(am) = assets.as_map() {
                        let names: Vec<&[u8]> = am.iter().filter_map(|(k, _)| k.as_bytes()).collect();
                        for w in names.windows(2) {
                            if (w[0].len(), w[0]) >= (w[1].len(), w[1]) {
                                out.violate("C16.asset_order", "asset_names_not_canonical", format!("name {} before {}", hex::encode(w[0]), hex::encode(w[1])));
                            }
                        }
                    }
                }
            }
        }
        Err(e) => out.violate("C16.asset_order", "unreadable", e.0),
    }
    out.sig = mix(c.entries.len() as u64, c.mint as u64);
    out.digest = mix(sim.digest(), bytes.len() as u64);
    drop(sim);
    out
}

/// deterministic builds: every successful build is repeated on the same builder and on a clone,
/// each time under fresh hash keys
pub fn run_session(sc: &Scenario, k_repeats: u64) -> Outcome {
    let (h, signed) = wallet::run_and_sign(sc);
    let mut out = Outcome::default();
    common(sc, &h, &signed, &mut out);
    // Recorded, not judged: the same history replayed on a *new* builder whose containers get other
    // hash keys (same RNG answers). The statement speaks of rebuilding an unchanged builder; a
    // difference here is reported in the evidence as cross_builder_order_dependence only.
    if !h.built.is_empty() {
        let mut sc2 = sc.clone();
        sc2.rng.forced = Some(h.draws.clone());
        sc2.hash_seed = mix(sc.hash_seed, 0xC0FFEE);
        let h2 = exec::run(&sc2);
        out.count("c16.cross_builder_replays", 1);
        let same = h2.built.len() == h.built.len() && h.built.iter().zip(h2.built.iter()).all(|(a, b)| a.bytes == b.bytes);
        if !same {
            out.count("c16.cross_builder_order_dependence", 1);
        }
    }
    let plan = RngPlan { sampler: Sampler::Uniform, seed: 0, forced: None };
    for b in &h.built {
        let mut distinct: BTreeSet<Vec<u8>> = BTreeSet::new();
        distinct.insert(b.bytes.clone());
        for k in 0..k_repeats {
            let sim = Sim::install(&plan, mix(sc.hash_seed, 1000 + k));
            let target = if k % 2 == 0 { b.builder.clone() } else { b.builder.clone().clone() };
            let again = if b.full { exec::guard(|| target.build_tx()).map(|t| t.to_bytes()) } else { exec::guard(|| target.build()).map(|t| t.to_bytes()) };
            drop(sim);
            out.count("fault.S2_rebuild_under_fresh_hash_keys", 1);
            match again {
                Ok(bytes) => {
                    distinct.insert(bytes);
                }
                Err(_) => {
                    out.violate("C16.deterministic_build", "rebuild_failed", format!("op {}: building the unchanged builder again failed", b.op));
                }
            }
        }
        out.nontrivial = true;
        out.count("c16.rebuilds_checked", 1);
        // how much order-sensitive material is in the transaction?
        if let Ok(v) = crate::oracle::TxView::parse(&crate::props::builder::tx_bytes_of(b)) {
            let nref = v.inputs_of(18).map(|x| x.len()).unwrap_or(0);
            if nref >= 2 {
                out.count("c16.rebuilds_with_2plus_reference_inputs", 1);
            }
            // the mint field of built transactions is canonical
            if let Some(m) = v.body().get(9).and_then(|n| n.as_map()) {
                out.count("c16.built_mint_fields_checked", 1);
                let pk: Vec<&[u8]> = m.iter().filter_map(|(k, _)| k.as_bytes()).collect();
                for w in pk.windows(2) {
                    if w[0] >= w[1] {
                        out.violate("C16.asset_order", "built_mint_policies_not_canonical", format!("op {}: mint policies out of canonical order", b.op));
                    }
                }
                for (_, assets) in m {
                    if let Some(am) = assets.as_map() {
                        let names: Vec<&[u8]> = am.iter().filter_map(|(k, _)| k.as_bytes()).collect();
                        for w in names.windows(2) {
                            if (w[0].len(), w[0]) >= (w[1].len(), w[1]) {
                                out.violate("C16.asset_order", "built_mint_names_not_canonical", format!("op {}: mint asset names out of canonical order", b.op));
                            }
                        }
                    }
                }
            }
            // set-typed body fields and witness-set fields hold nothing twice
            for key in [0u64, 13, 14, 18, 4, 20] {
                if let Some(items) = v.body().get(key).and_then(|n| n.set_items()) {
                    let mut seen = BTreeSet::new();
                    for it in items {
                        if !seen.insert(v.span(it).to_vec()) {
                            out.violate("C16.built_sets", "built_set_field_repeats_an_element", format!("op {}: body field {} holds an element twice", b.op, key));
                        }
                    }
                }
            }
            for key in [1u64, 3, 4, 6, 7] {
                if let Some(items) = v.ws().get(key).and_then(|n| n.set_items()) {
                    let mut seen = BTreeSet::new();
                    for it in items {
                        if !seen.insert(v.span(it).to_vec()) {
                            out.violate("C16.built_sets", "built_witness_field_repeats_an_element", format!("op {}: witness field {} holds an element twice", b.op, key));
                        }
                    }
                }
            }
        }
        if distinct.len() > 1 {
            let v: Vec<&Vec<u8>> = distinct.iter().collect();
            let pos = v[0].iter().zip(v[1].iter()).position(|(a, b)| a != b).unwrap_or(0);
            out.violate("C16.deterministic_build", "rebuild_differs", format!("op {}: {} distinct byte strings from {} builds of the unchanged builder (first difference at byte {})", b.op, distinct.len(), k_repeats + 1, pos));
        }
    }
    out
}

fn profile_c16() -> Profile {
    let mut p = Profile::base("c16");
    p.ref_inputs = 600;
    p.ref_scripts = 600;
    p.plutus = 300;
    p.native_inputs = 300;
    p.mint = 400;
    p.certs = 400;
    p.votes = 200;
    p.proposals = 200;
    p.extra_datums = 300;
    p.req_signers = 300;
    p
}

pub struct C16;

impl Prop for C16 {
    type Case = Case;
    fn id(&self) -> &'static str {
        "C16"
    }
    fn runs(&self, tier: Tier) -> u64 {
        match tier {
            Tier::Quick => 100_000,
            Tier::Thorough => 3_000_000,
        }
    }
    fn rule_text(&self) -> String {
        "one run = one history of one of three actors: (a) a collection of one of 10 set-like types driven by add (with repeats, F6), decode from harness-written bytes that repeat elements (tagged/untagged, definite/indefinite, wide heads; F8), from_json with repeats, clone and restart from bytes/hex/JSON (F5), compared after every step with a first-insertion-dedup vector model through the harness reader; (b) an asset map / mint filled in a seeded permutation and read back for canonical key order; (c) a wallet session whose every successful build is repeated K times on the unchanged builder and on clones under fresh hash keys (S2) and compared byte for byte, plus duplicate-freeness of set fields and canonical mint order of the built transaction — non-trivial = at least one step/rebuild was checked; distinct = distinct state signature (actor x type x op kinds x sizes / session signature)".into()
    }
    fn generate(&self, seed: u64, tier: Tier) -> Case {
        let mut r = Rng::stream(seed, 9);
        match r.below(100) {
            0..=49 => Case::Session(wallet::generate(seed, tier, &profile_c16())),
            50..=84 => {
                let kind = *r.pick(&KINDS);
                let uni = universe_of(kind) as u64;
                let long = uni > UNIVERSE as u64 && r.chance(1, 2);
                let n = 1 + r.below(if tier == Tier::Thorough { 24 } else { 12 }) + if long { 12 } else { 0 };
                let mut ops = vec![];
                for _ in 0..n {
                    let ids = |r: &mut Rng| -> Vec<u8> {
                        let m = r.below(if long { 14 } else { 6 });
                        (0..m).map(|_| r.below(uni) as u8).collect()
                    };
                    ops.push(match r.below(13) {
                        12 => CollOp::ViaBuilder,
                        0..=4 => CollOp::Add(r.below(uni) as u8),
                        5 => CollOp::AddAlt(r.below(uni) as u8, 1 + r.below(200) as u8),
                        6 | 7 => CollOp::Decode { ids: ids(&mut r), tagged: r.chance(1, 2), indefinite: r.chance(1, 3), wide: r.chance(1, 4), alt: if r.chance(1, 2) { 1 + r.below(200) as u8 } else { 0 } },
                        8 => CollOp::FromJson(ids(&mut r)),
                        9 => CollOp::CloneIt,
                        10 => {
                            if r.chance(1, 2) {
                                CollOp::RestartBytes
                            } else {
                                CollOp::RestartHex
                            }
                        }
                        _ => CollOp::RestartJson,
                    });
                }
                Case::Coll(CollCase { kind, ops, hash_seed: r.next() })
            }
            _ => {
                let n = 1 + r.below(12);
                let mut entries = vec![];
                for _ in 0..n {
                    let len = *r.pick(&[0usize, 1, 1, 2, 3, 8, 31, 32]);
                    let name: Vec<u8> = (0..len).map(|_| *r.pick(&[0u8, 1, 0x61, 0x62, 0x7a, 0xff])).collect();
                    entries.push((r.below(4) as u8, name, r.range(1, 1000) as i64 * if r.chance(1, 4) { -1 } else { 1 }));
                }
                Case::Assets(AssetCase { entries, mint: r.chance(1, 2), hash_seed: r.next() })
            }
        }
    }
    fn execute(&self, case: &Case) -> Outcome {
        match case {
            Case::Session(sc) => run_session(sc, 4),
            Case::Coll(c) => run_coll(c),
            Case::Assets(c) => run_assets(c),
        }
    }
    fn pin(&self, case: &Case) -> Case {
        match case {
            Case::Session(sc) => Case::Session(sess::pin(sc)),
            c => c.clone(),
        }
    }
    fn shrink_candidates(&self, case: &Case) -> Vec<Case> {
        match case {
            Case::Session(sc) => sess::shrink_candidates(sc).into_iter().map(Case::Session).collect(),
            Case::Coll(c) => {
                let mut v = vec![];
                let n = c.ops.len();
                let mut chunk = n / 2;
                while chunk >= 1 {
                    let mut s = 0;
                    while s < n {
                        let e = (s + chunk).min(n);
                        if e - s < n {
                            let mut cc = c.clone();
                            cc.ops.drain(s..e);
                            v.push(Case::Coll(cc));
                        }
                        s += chunk;
                    }
                    chunk /= 2;
                }
                for (i, op) in c.ops.iter().enumerate() {
                    if let CollOp::Decode { ids, .. } | CollOp::FromJson(ids) = op {
                        for j in 0..ids.len() {
                            let mut cc = c.clone();
                            match &mut cc.ops[i] {
                                CollOp::Decode { ids, .. } | CollOp::FromJson(ids) => {
                                    ids.remove(j);
                                }
                                _ => {}
                            }
                            v.push(Case::Coll(cc));
                        }
                    }
                }
                v
            }
            Case::Assets(c) => (0..c.entries.len())
                .map(|i| {
                    let mut cc = c.clone();
                    cc.entries.remove(i);
                    Case::Assets(cc)
                })
                .collect(),
        }
    }
    fn size(&self, case: &Case) -> usize {
        match case {
            Case::Session(sc) => sess::size(sc),
            Case::Coll(c) => c.ops.len(),
            Case::Assets(c) => c.entries.len(),
        }
    }
    fn components(&self) -> (Vec<&'static str>, Vec<&'static str>) {
        (
            vec!["cardano-serialization-lib collections, witness-set setters, asset maps, TransactionBuilder::build/build_tx (real code, feature verif-hooks)"],
            vec!["hash keys of every container created during a build (simulator stream, seam H2)", "first-insertion-dedup vector model", "harness CBOR reader/writer (foreign encodings)"],
        )
    }
    fn assumptions(&self) -> Vec<String> {
        vec![
            "repeated builds of the same unchanged builder (and of clones of it) are compared; two builders filled the same way in different processes are not (the statement speaks of rebuilding an unchanged builder)".into(),
            "encodings the decoder rejects are counted, not claimed".into(),
        ]
    }
    fn fault_kinds(&self) -> Vec<&'static str> {
        vec!["S2 hash-order schedule", "F5 restart from bytes/hex/JSON", "F6 duplicated delivery (repeated element)", "F8 foreign peer encoding", "S1 RNG schedule", "K9 knob randomisation"]
    }
}

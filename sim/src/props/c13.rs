//! C13 — send-all batches spend everything once and every transaction is valid.
//! The same call is executed under K hash-key schedules (S2); each result must be valid.
use crate::ctl::{RngPlan, Sampler, Sim};
use crate::exec;
use crate::oracle::{self, Ctx, TxView};
use crate::prng::{mix, Rng};
use crate::runner::{Outcome, Prop, Tier};
use crate::scn::Knobs;
use crate::sess;
use crate::wallet::{byron_by_addr, key_by_hash};
use crate::world::*;
use cardano_serialization_lib as csl;
use num_bigint::BigInt;
use serde::{Deserialize, Serialize};
use std::collections::{BTreeMap, BTreeSet};

#[derive(Serialize, Deserialize, Clone, Debug)]
pub struct Case {
    pub knobs: Knobs,
    pub world: World,
    pub target: AddrSpec,
    /// indices into world.utxos, in the order they are handed to the library
    pub offered: Vec<usize>,
    pub hash_seeds: Vec<u64>,
    /// non-zero: the UTxOs are handed over the way a wallet connector returns them - decoded from
    /// another producer's CBOR (wide heads, indefinite containers, unsorted asset maps)
    #[serde(default)]
    pub decoded: u8,
}

pub struct C13;

fn gen(seed: u64, tier: Tier) -> Case {
    let mut r = Rng::stream(seed, 1);
    let mut k = Knobs::default();
    if r.chance(2, 3) {
        k.cpb = *r.pick(&[1u64, 100, 1000, 1000, 4310, 4310, 10000]);
        k.fee_a = *r.pick(&[0u64, 1, 44, 44, 100, 500]);
        k.fee_b = *r.pick(&[0u64, 1000, 155381, 155381, 65535, 65536]);
        k.max_value_size = *r.pick(&[150u32, 200, 300, 500, 1000, 5000]);
        k.max_tx_size = *r.pick(&[600u32, 1024, 2048, 4096, 16384]);
    }
    // (23..25 and 60 distinct owners: the witness collections' own array heads cross the 23/24 edge)
    let nkeys = *r.pick(&[1u16, 2, 3, 8, 8, 24, 25, 60]);
    let many_owners = nkeys >= 24;
    let byron_pm = *r.pick(&[0u64, 0, 100, 500]);
    let mut w = World { network: r.below(2) as u8, magic: 764824073, scripts: vec![ScriptSpec::Native(Ns::Pk(0))], datums: vec![], utxos: vec![], decoded_scripts: false };
    let n = if many_owners {
        // as many UTxOs as owners, each with its own key, so that one transaction sees 23..26 (or 60) distinct signers
        *r.pick(&[23usize, 24, 25, 26, 60])
    } else if tier == Tier::Thorough {
        *r.pick(&[1usize, 2, 3, 5, 8, 13, 23, 24, 25, 40, 60, 120, 255, 256, 400])
    } else {
        *r.pick(&[1usize, 2, 3, 4, 5, 8, 13, 23, 24, 25, 40, 60])
    };
    let all_byron_owners = many_owners && r.chance(1, 3);
    if many_owners {
        k.max_tx_size = 16384;
    }
    let npol = *r.pick(&[0u16, 1, 1, 2, 3, 5, 10, 24]);
    let names_per_pol = *r.pick(&[1usize, 1, 2, 3, 8, 23, 24, 30]);
    let mut classes: Vec<(u16, Vec<u8>)> = vec![];
    for p in 0..npol {
        let m = 1 + r.usize_below(names_per_pol);
        for j in 0..m {
            let len = *r.pick(&[0usize, 1, 4, 8, 23, 24, 31, 32]);
            let mut name: Vec<u8> = (0..len).map(|i| b'a' + ((i + j) % 26) as u8).collect();
            if len >= 2 {
                name[0] = b'A' + (j % 26) as u8;
                name[1] = b'0' + (j / 26) as u8;
            }
            if !classes.contains(&(1000 + p, name.clone())) {
                classes.push((1000 + p, name));
            }
        }
    }
    let assets_per_utxo = *r.pick(&[0usize, 1, 2, 3, 5, 10, 30]);
    let coin_mode = r.below(5);
    for i in 0..n {
        let mut assets = vec![];
        if !many_owners && !classes.is_empty() && assets_per_utxo > 0 && r.chance(3, 4) {
            let m = 1 + r.usize_below(assets_per_utxo.min(classes.len()));
            let start = r.usize_below(classes.len());
            for j in 0..m {
                let (p, nm) = classes[(start + j) % classes.len()].clone();
                let q = match r.below(6) {
                    0 => 1,
                    1 => 23 + r.below(3),
                    2 => 255 + r.below(3),
                    3 => 65535 + r.below(3),
                    4 => 4294967295 + r.below(3),
                    _ => 1 + r.below(1 << 40),
                };
                assets.push(AssetQ { p, n: nm, q });
            }
        }
        let min = sess::approx_min_ada(&k, 70 + 50 * assets.len() as u64).max(1);
        let coin = match coin_mode {
            0 => min + r.below(min / 4 + 1),
            1 => min * (1 + r.below(5)) + r.below(1000),
            2 => *r.pick(&[65535u64, 65536, 4294967295, 4294967296, 1 << 40]) + r.below(3) + min,
            3 => {
                if r.chance(1, 3) {
                    min / 2 + 1
                } else {
                    min + r.below(10_000_000)
                }
            }
            _ => {
                let e = r.range(10, 40);
                min + r.below(1 << e)
            }
        };
        let addr = if many_owners {
            let kk = (i as u16) % nkeys.min(60);
            if all_byron_owners {
                AddrSpec::Byron(kk)
            } else {
                AddrSpec::Base(Cred::Key(kk), Cred::Key(kk))
            }
        } else if r.chance(1, 60) {
            AddrSpec::Ent(Cred::Script(0))
        } else {
            sess::gen_key_addr(&mut r, nkeys, byron_pm)
        };
        w.utxos.push(Utxo { tx: 1 + i as u32 / 3, ix: (i % 3) as u32 + if r.chance(1, 10) { 255 } else { 0 }, addr, coin, empty_ma: if assets.is_empty() { r.chance(1, 10) } else { r.chance(1, 30) }, assets, datum: None, script_ref: if r.chance(1, 30) { Some(0) } else { None } });
    }
    let mut seen = BTreeSet::new();
    for u in w.utxos.iter_mut() {
        while !seen.insert((u.tx, u.ix)) {
            u.ix += 1;
        }
    }
    let mut offered: Vec<usize> = (0..n).collect();
    r.shuffle(&mut offered);
    let target = if r.chance(1, 10) { AddrSpec::Byron(r.below(4) as u16) } else { sess::gen_key_addr(&mut r, 12, 0) };
    let kk = if tier == Tier::Thorough { 8 } else { 3 };
    let mut rh = Rng::stream(seed, 3);
    let mut c = Case { knobs: k, world: w, target, offered, hash_seeds: (0..kk).map(|_| rh.next()).collect(), decoded: if rh.chance(1, 3) { 1 + rh.below(250) as u8 } else { 0 } };
    if rh.chance(1, 4) {
        // adaptive: measure the batch once, then put the value-size limit on (or 1-2 bytes below) the size
        // of the largest value it produced, so that the limit binds exactly where the size model has to be right
        let mut largest = 0usize;
        for t in &probe_transactions(&c, c.hash_seeds[0]) {
            if let Ok(v) = TxView::parse(t) {
                for o in v.outputs().unwrap_or_default() {
                    largest = largest.max(o.value_span.1 - o.value_span.0);
                }
            }
        }
        if largest > 60 {
            c.knobs.max_value_size = (largest as u64 - rh.below(3)) as u32;
        }
    }
    c
}

fn offered_list(c: &Case, out: &mut Outcome) -> csl::TransactionUnspentOutputs {
    let w = &c.world;
    let mut utxos = csl::TransactionUnspentOutputs::new();
    for i in &c.offered {
        if *i < w.utxos.len() {
            let plain = w.utxo(*i);
            let mut decoded = None;
            if c.decoded != 0 {
                let mut r = Rng::new(mix(c.decoded as u64, *i as u64));
                if r.chance(2, 3) {
                    if let Ok(n) = crate::cbor::parse(&plain.to_bytes()) {
                        let mut f = crate::cbor::Foreign::new(&mut r, 100, 200, 0, 300);
                        let mut o = vec![];
                        f.emit(&n, &mut o);
                        decoded = csl::TransactionUnspentOutput::from_bytes(o).ok();
                        if decoded.is_some() {
                            out.count("fault.F8_utxos_decoded_from_foreign_bytes", 1);
                        }
                    }
                }
            }
            utxos.add(&decoded.unwrap_or(plain));
        }
    }
    utxos
}

/// throw-away execution for the adaptive generator: the bytes of the transactions the batch returns
fn probe_transactions(c: &Case, hash_seed: u64) -> Vec<Vec<u8>> {
    let plan = RngPlan { sampler: Sampler::Uniform, seed: 0, forced: None };
    let sim = Sim::install(&plan, hash_seed);
    let mut scratch = Outcome::default();
    let utxos = offered_list(c, &mut scratch);
    let target = c.world.address(&c.target);
    let cfg = exec::config(&c.knobs);
    let res = exec::guard(|| csl::create_send_all(&target, &utxos, &cfg));
    drop(sim);
    let mut v = vec![];
    if let Ok(list) = res {
        for bi in 0..list.len() {
            let batch = list.get(bi);
            for ti in 0..batch.len() {
                v.push(batch.get(ti).to_bytes());
            }
        }
    }
    v
}

fn run_once(c: &Case, hash_seed: u64, out: &mut Outcome) -> Option<Vec<Vec<(Vec<u8>, u64)>>> {
    let plan = RngPlan { sampler: Sampler::Uniform, seed: 0, forced: None };
    let sim = Sim::install(&plan, hash_seed);
    let w = &c.world;
    let cfg = exec::config(&c.knobs);
    let utxos = offered_list(c, out);
    let target = w.address(&c.target);
    let target_bytes = target.to_bytes();
    let res = exec::guard(|| csl::create_send_all(&target, &utxos, &cfg));
    out.count("fault.S2_hash_keys_issued", sim.hash_keys());
    out.digest = mix(out.digest, sim.digest());
    drop(sim);
    out.steps += 1;
    let list = match res {
        Ok(l) => l,
        Err(exec::Res::Err(e)) => {
            out.count("c13.err", 1);
            let mut d = crate::prng::Digest(out.digest);
            d.str(&e);
            out.digest = d.0;
            return None;
        }
        Err(_) => {
            out.count("panics_observed", 1);
            return None;
        }
    };
    out.nontrivial = true;
    out.count("c13.ok", 1);
    // The statement's fee clause is "the minimum fee for its real size with one signature per distinct owning
    // key"; the Conway surcharge for reference scripts that *spent* UTxOs happen to carry is not part of it (the
    // batcher has no notion of it). It is left out of the fee demanded and only recorded as an observation.
    let carriers: BTreeSet<(Vec<u8>, u64)> = (0..w.utxos.len()).filter(|i| w.utxos[*i].script_ref.is_some()).map(|i| w.outpoint(i)).collect();
    let cx_full = Ctx { w, k: &c.knobs, undeclared_ref_scripts: Default::default() };
    let cx = Ctx { w, k: &c.knobs, undeclared_ref_scripts: carriers };
    let mut grouping: Vec<Vec<(Vec<u8>, u64)>> = vec![];
    let mut spent: BTreeMap<(Vec<u8>, u64), usize> = BTreeMap::new();
    let mut ntx = 0;
    for bi in 0..list.len() {
        let batch = list.get(bi);
        for ti in 0..batch.len() {
            ntx += 1;
            let tx = batch.get(ti);
            let raw = tx.to_bytes();
            {
                let mut d = crate::prng::Digest(out.digest);
                d.bytes(&raw);
                out.digest = d.0;
            }
            let v = match TxView::parse(&raw) {
                Ok(v) => v,
                Err(e) => {
                    out.violate("C13.shape", "transaction_unreadable", format!("tx {}: {}", ti, e));
                    continue;
                }
            };
            let ins = match v.inputs_of(0) {
                Ok(i) => i,
                Err(_) => continue,
            };
            if std::env::var("C13_DEBUG").is_ok() {
                let outs = v.outputs().unwrap_or_default();
                eprintln!("tx {}: {} bytes, inputs {:?}", ti, raw.len(), ins.iter().map(|i| (hex::encode(&i.0[..2]), i.1)).collect::<Vec<_>>());
                for o in &outs {
                    eprintln!("   output span {} coin {} assets {:?}", o.span.1 - o.span.0, o.value.coin, o.value.assets.iter().map(|(k, q)| (k.1.len(), *q)).collect::<Vec<_>>());
                }
                eprintln!("   fee {:?} ws vkeys {:?} boots {:?} ws bytes {}", v.fee(), v.ws().get(0).and_then(|n| n.set_items()).map(|x| x.len()), v.ws().get(2).and_then(|n| n.set_items()).map(|x| x.iter().map(|b| b.len()).collect::<Vec<_>>()), v.ws().len());
            }
            let mut g = ins.clone();
            g.sort();
            grouping.push(g);
            for i in &ins {
                *spent.entry(i.clone()).or_insert(0) += 1;
            }
            // outputs pay the target only; min-ADA and value size
            let outs = v.outputs().unwrap_or_default();
            for (oi, o) in outs.iter().enumerate() {
                if o.addr != target_bytes {
                    out.violate("C13.target", "output_pays_another_address", format!("tx {} output {} pays {}", ti, oi, hex::encode(&o.addr[..o.addr.len().min(8)])));
                }
                if let Err(e) = oracle::output_rules(&raw, o, &c.knobs) {
                    let class = if e.starts_with("min-ADA") { "output_below_min_ada" } else { "value_too_large" };
                    out.violate("C13.output", class, format!("tx {} output {} of {}: {}", ti, oi, outs.len(), e));
                }
            }
            // value preservation
            if let Err(e) = oracle::preservation(&v, &cx) {
                let class = if e.starts_with("lovelace") {
                    "lovelace_imbalance"
                } else if e.starts_with("asset") {
                    "asset_imbalance"
                } else {
                    "input_unknown"
                };
                out.violate("C13.preservation", class, format!("tx {} of {}: {}", ti, batch.len(), e));
            }
            // real signatures: one per distinct owning key, one bootstrap witness per Byron address
            let req = match oracle::required(&v, &cx) {
                Ok(r) => r,
                Err(_) => continue,
            };
            let th = csl::TransactionHash::from_bytes(v.body_hash().to_vec()).unwrap();
            let mut ws = csl::TransactionWitnessSet::new();
            if !req.keys.is_empty() {
                let mut vk = csl::Vkeywitnesses::new();
                for kh in &req.keys {
                    if let Some(id) = key_by_hash(kh) {
                        vk.add(&csl::make_vkey_witness(&th, &key(id).sk));
                    }
                }
                ws.set_vkeys(&vk);
            }
            if !req.byron.is_empty() {
                let mut bw = csl::BootstrapWitnesses::new();
                for a in &req.byron {
                    if let Some(bm) = crate::wallet::byron_mat_by_addr(a, w.magic) {
                        bw.add(&csl::make_icarus_bootstrap_witness(&th, &bm.addr, &bm.xprv));
                    }
                }
                ws.set_bootstraps(&bw);
            }
            let signed = csl::Transaction::new(&tx.body(), &ws, None).to_bytes();
            let sv = match TxView::parse(&signed) {
                Ok(x) => x,
                Err(_) => continue,
            };
            out.count("c13.transactions_checked", 1);
            if let (Ok(fee), Ok(need_full)) = (sv.fee(), oracle::min_fee(&sv, &cx_full)) {
                if BigInt::from(fee) < need_full {
                    out.count("c13.observation_reference_script_surcharge_not_covered", 1);
                }
            }
            if let (Ok(fee), Ok(need)) = (sv.fee(), oracle::min_fee(&sv, &cx)) {
                if BigInt::from(fee) < need {
                    out.violate("C13.min_fee", if req.byron.is_empty() { "fee_below_minimum" } else { "fee_below_minimum/with_bootstrap_witness" }, format!("tx {}: fee {} < minimum {} for {} signed bytes ({} vkey + {} bootstrap); the transaction as returned with mock witnesses has {} bytes", ti, fee, need, signed.len(), req.keys.len(), req.byron.len(), raw.len()));
                }
            }
            if signed.len() > c.knobs.max_tx_size as usize {
                out.violate("C13.tx_size", "transaction_too_large", format!("tx {}: {} signed bytes > max_tx_size {} ({} inputs, {} outputs)", ti, signed.len(), c.knobs.max_tx_size, ins.len(), outs.len()));
            }
        }
    }
    out.count("c13.transactions", ntx);
    if ntx > 1 {
        out.count("c13.multi_tx_results", 1);
    }
    // partition of the supplied set
    let supplied: BTreeSet<(Vec<u8>, u64)> = c.offered.iter().filter(|i| **i < w.utxos.len()).map(|i| w.outpoint(*i)).collect();
    for (op, n) in &spent {
        if *n > 1 {
            out.violate("C13.partition", "utxo_spent_twice", format!("{}#{} is an input of {} transactions", hex::encode(&op.0[..4]), op.1, n));
        }
        if !supplied.contains(op) {
            out.violate("C13.partition", "foreign_input", format!("{}#{} was not supplied", hex::encode(&op.0[..4]), op.1));
        }
    }
    for op in &supplied {
        if !spent.contains_key(op) {
            out.violate("C13.partition", "utxo_left_unspent", format!("{}#{} was supplied but no transaction spends it ({} supplied, {} spent)", hex::encode(&op.0[..4]), op.1, supplied.len(), spent.len()));
            break;
        }
    }
    grouping.sort();
    Some(grouping)
}

fn execute(c: &Case) -> Outcome {
    let mut out = Outcome::default();
    let mut groupings: BTreeSet<Vec<Vec<(Vec<u8>, u64)>>> = BTreeSet::new();
    let mut oks = 0;
    for hs in &c.hash_seeds {
        if let Some(g) = run_once(c, *hs, &mut out) {
            groupings.insert(g);
            oks += 1;
        }
        out.count("fault.S2_same_call_under_another_hash_order", 1);
    }
    if oks > 0 && oks < c.hash_seeds.len() {
        out.count("c13.result_class_depends_on_hash_order", 1);
    }
    if groupings.len() > 1 {
        out.count("c13.scenarios_with_distinct_groupings", 1);
    }
    out.count("c13.distinct_groupings_observed", groupings.len() as u64);
    let n = c.offered.len();
    let nassets: usize = c.world.utxos.iter().map(|u| u.assets.len()).sum();
    let hc = |n: usize| match n {
        0 => 0u64,
        1 => 1,
        2..=23 => 2,
        24..=255 => 3,
        _ => 4,
    };
    let mut sig = mix(hc(n), hc(nassets));
    for x in [c.knobs.cpb, c.knobs.max_value_size as u64, c.knobs.max_tx_size as u64, c.knobs.fee_a, oks as u64, groupings.len() as u64, out.counters.get("c13.transactions").cloned().unwrap_or(0).min(6)] {
        sig = mix(sig, x);
    }
    out.sig = sig;
    out
}

impl Prop for C13 {
    type Case = Case;
    fn id(&self) -> &'static str {
        "C13"
    }
    fn runs(&self, tier: Tier) -> u64 {
        match tier {
            Tier::Quick => 30_000,
            Tier::Thorough => 400_000,
        }
    }
    fn rule_text(&self) -> String {
        "one run = one create_send_all call over a seeded UTxO set (1-60 entries quick, up to 400 thorough; pure ADA to 30 asset classes per UTxO over up to 24 policies, names 0-32 bytes, amounts across CBOR width classes, Byron and Shelley owners, K9 limits small enough to need several outputs and transactions) executed under K hash-key schedules (quick 3, thorough 8) — non-trivial = at least one schedule returned Ok and every returned transaction was re-read and checked (partition of the supplied set, target-only outputs, preservation of value, minimum fee of the really signed bytes, min-ADA, value and transaction size); distinct = distinct state signature (count classes x knobs x result class x number of distinct groupings x number of transactions)".into()
    }
    fn generate(&self, seed: u64, tier: Tier) -> Case {
        gen(seed, tier)
    }
    fn execute(&self, case: &Case) -> Outcome {
        execute(case)
    }
    fn shrink_candidates(&self, c: &Case) -> Vec<Case> {
        let mut v = vec![];
        if c.hash_seeds.len() > 1 {
            for i in 0..c.hash_seeds.len() {
                let mut cc = c.clone();
                cc.hash_seeds = vec![c.hash_seeds[i]];
                v.push(cc);
            }
        }
        let n = c.offered.len();
        let mut chunk = n / 2;
        while chunk >= 1 {
            let mut s = 0;
            while s < n {
                let e = (s + chunk).min(n);
                if e - s < n {
                    let mut cc = c.clone();
                    cc.offered.drain(s..e);
                    v.push(cc);
                }
                s += chunk;
            }
            chunk /= 2;
        }
        for i in &c.offered {
            let u = &c.world.utxos[*i];
            if !u.assets.is_empty() {
                let mut cc = c.clone();
                cc.world.utxos[*i].assets.clear();
                v.push(cc);
                if u.assets.len() > 1 {
                    let mut cc = c.clone();
                    cc.world.utxos[*i].assets.truncate(u.assets.len() / 2);
                    v.push(cc);
                    let mut cc = c.clone();
                    cc.world.utxos[*i].assets.remove(0);
                    v.push(cc);
                }
            }
        }
        let d = Knobs::default();
        macro_rules! knob {
            ($f:ident) => {
                if c.knobs.$f != d.$f {
                    let mut cc = c.clone();
                    cc.knobs.$f = d.$f.clone();
                    v.push(cc);
                }
            };
        }
        knob!(fee_a);
        knob!(fee_b);
        knob!(cpb);
        knob!(max_value_size);
        knob!(max_tx_size);
        v
    }
    fn size(&self, c: &Case) -> usize {
        c.offered.len() * 4 + c.offered.iter().map(|i| c.world.utxos[*i].assets.len()).sum::<usize>() + c.hash_seeds.len()
    }
    fn components(&self) -> (Vec<&'static str>, Vec<&'static str>) {
        (
            vec!["cardano-serialization-lib create_send_all and builders/batch_tools/* (real code, feature verif-hooks)", "library signing helpers (results only used for size)"],
            vec!["hash keys of every HashMap/HashSet in batch_tools (simulator stream, seam H2)", "reference node (oracle.rs)", "ground-truth UTxO set"],
        )
    }
    fn assumptions(&self) -> Vec<String> {
        vec!["supplied UTxOs are truthful; sets with script-owned UTxOs are expected to be refused".into(), "groupings may differ between hash orders; each result must be valid on its own".into(), "sampling, not enumeration".into()]
    }
    fn fault_kinds(&self) -> Vec<&'static str> {
        vec!["S2 hash-order schedule", "K9 knob randomisation"]
    }
}

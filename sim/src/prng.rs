//! Seed derivation and the only pseudo-random generator the simulator uses.
//! No `rand` crate, no OS entropy, no clock: one integer decides everything.

#[inline]
pub fn splitmix64(state: &mut u64) -> u64 {
    *state = state.wrapping_add(0x9E37_79B9_7F4A_7C15);
    let mut z = *state;
    z = (z ^ (z >> 30)).wrapping_mul(0xBF58_476D_1CE4_E5B9);
    z = (z ^ (z >> 27)).wrapping_mul(0x94D0_49BB_1331_11EB);
    z ^ (z >> 31)
}

/// Mix two integers into one seed (used for base seed x run index x stream id).
pub fn mix(a: u64, b: u64) -> u64 {
    let mut s = a ^ 0xA076_1D64_78BD_642F;
    let x = splitmix64(&mut s);
    let mut t = x ^ b.wrapping_mul(0xE703_7ED1_A0B4_28DB);
    splitmix64(&mut t)
}

/// FNV-style string hash so that a property id contributes to the base seed.
pub fn str_seed(s: &str) -> u64 {
    let mut h: u64 = 0xcbf2_9ce4_8422_2325;
    for b in s.bytes() {
        h ^= b as u64;
        h = h.wrapping_mul(0x1000_0000_01b3);
    }
    h
}

/// xoshiro256**
#[derive(Clone, Debug)]
pub struct Rng {
    s: [u64; 4],
}

impl Rng {
    pub fn new(seed: u64) -> Self {
        let mut sm = seed;
        let s = [
            splitmix64(&mut sm),
            splitmix64(&mut sm),
            splitmix64(&mut sm),
            splitmix64(&mut sm),
        ];
        Rng { s }
    }

    /// independent stream `id` of seed `seed`
    pub fn stream(seed: u64, id: u64) -> Self {
        Rng::new(mix(seed, id))
    }

    #[inline]
    pub fn next(&mut self) -> u64 {
        let result = self.s[1].wrapping_mul(5).rotate_left(7).wrapping_mul(9);
        let t = self.s[1] << 17;
        self.s[2] ^= self.s[0];
        self.s[3] ^= self.s[1];
        self.s[1] ^= self.s[2];
        self.s[0] ^= self.s[3];
        self.s[2] ^= t;
        self.s[3] = self.s[3].rotate_left(45);
        result
    }

    /// uniform in 0..n (n > 0)
    #[inline]
    pub fn below(&mut self, n: u64) -> u64 {
        debug_assert!(n > 0);
        // multiply-shift; bias is irrelevant here
        ((self.next() as u128 * n as u128) >> 64) as u64
    }

    #[inline]
    pub fn usize_below(&mut self, n: usize) -> usize {
        self.below(n as u64) as usize
    }

    /// uniform in lo..=hi
    #[inline]
    pub fn range(&mut self, lo: u64, hi: u64) -> u64 {
        if hi <= lo {
            return lo;
        }
        let span = hi - lo;
        if span == u64::MAX {
            return self.next();
        }
        lo + self.below(span + 1)
    }

    #[inline]
    pub fn chance(&mut self, num: u64, den: u64) -> bool {
        self.below(den) < num
    }

    pub fn pick<'a, T>(&mut self, xs: &'a [T]) -> &'a T {
        &xs[self.usize_below(xs.len())]
    }

    pub fn shuffle<T>(&mut self, xs: &mut [T]) {
        for i in (1..xs.len()).rev() {
            let j = self.usize_below(i + 1);
            xs.swap(i, j);
        }
    }

    /// weighted pick: returns index
    pub fn weighted(&mut self, w: &[u32]) -> usize {
        let tot: u64 = w.iter().map(|x| *x as u64).sum();
        if tot == 0 {
            return 0;
        }
        let mut r = self.below(tot);
        for (i, x) in w.iter().enumerate() {
            if r < *x as u64 {
                return i;
            }
            r -= *x as u64;
        }
        w.len() - 1
    }
}

/// 64-bit digest for event logs (order sensitive).
#[derive(Clone, Debug)]
pub struct Digest(pub u64);
impl Digest {
    pub fn new() -> Self {
        Digest(0x1234_5678_9abc_def0)
    }
    #[inline]
    pub fn u64(&mut self, x: u64) {
        self.0 = mix(self.0, x);
    }
    pub fn bytes(&mut self, b: &[u8]) {
        self.u64(b.len() as u64);
        for ch in b.chunks(8) {
            let mut w = [0u8; 8];
            w[..ch.len()].copy_from_slice(ch);
            self.u64(u64::from_le_bytes(w));
        }
    }
    pub fn str(&mut self, s: &str) {
        self.bytes(s.as_bytes())
    }
}

//! Generic batch runner: seeded runs over worker threads, reduction in run order,
//! minimisation of violations, replay files, evidence, known findings.
use crate::prng::{mix, str_seed};
use serde::de::DeserializeOwned;
use serde::{Deserialize, Serialize};
use std::collections::{BTreeMap, BTreeSet, HashSet};
use std::sync::atomic::{AtomicU64, Ordering};
use std::sync::Mutex;
use std::time::Instant;

#[derive(Clone, Copy, Debug, PartialEq, Eq)]
pub enum Tier {
    Quick,
    Thorough,
}
impl Tier {
    pub fn name(&self) -> &'static str {
        match self {
            Tier::Quick => "quick",
            Tier::Thorough => "thorough",
        }
    }
}

#[derive(Clone, Debug, Serialize, Deserialize)]
pub struct Violation {
    pub rule: String,
    /// stable class of the failing case (used to match known findings); no run-specific numbers
    pub class: String,
    pub detail: String,
}

#[derive(Clone, Debug, Default)]
pub struct Outcome {
    pub violations: Vec<Violation>,
    /// reached the property's decision point
    pub nontrivial: bool,
    /// state signature (hashed)
    pub sig: u64,
    pub counters: BTreeMap<&'static str, u64>,
    /// logical steps executed ("simulated time")
    pub steps: u64,
    pub digest: u64,
}

impl Outcome {
    pub fn count(&mut self, k: &'static str, n: u64) {
        *self.counters.entry(k).or_insert(0) += n;
    }
    pub fn violate(&mut self, rule: &str, class: &str, detail: String) {
        self.violations.push(Violation { rule: rule.to_string(), class: class.to_string(), detail });
    }
}

pub trait Prop: Sync {
    type Case: Serialize + DeserializeOwned + Clone + Send;
    fn id(&self) -> &'static str;
    fn runs(&self, tier: Tier) -> u64;
    fn rule_text(&self) -> String;
    fn generate(&self, seed: u64, tier: Tier) -> Self::Case;
    fn execute(&self, case: &Self::Case) -> Outcome;
    /// make the case self-contained for replay (e.g. record the explicit RNG answers)
    fn pin(&self, case: &Self::Case) -> Self::Case {
        case.clone()
    }
    /// one-step-smaller variants, most aggressive first
    fn shrink_candidates(&self, case: &Self::Case) -> Vec<Self::Case>;
    fn size(&self, case: &Self::Case) -> usize;
    fn components(&self) -> (Vec<&'static str>, Vec<&'static str>);
    fn assumptions(&self) -> Vec<String>;
    fn fault_kinds(&self) -> Vec<&'static str>;
}

#[derive(Serialize, Deserialize, Clone, Debug)]
pub struct KnownFinding {
    pub property: String,
    pub rule: String,
    pub class: String,
    pub status: String,
    #[serde(default)]
    pub commit: Option<String>,
    pub what: String,
}

pub fn load_known(verif_dir: &str) -> Vec<KnownFinding> {
    let p = format!("{}/known_findings.json", verif_dir);
    match std::fs::read_to_string(&p) {
        Ok(s) => serde_json::from_str(&s).unwrap_or_else(|e| {
            eprintln!("harness error: cannot parse {}: {}", p, e);
            std::process::exit(2)
        }),
        Err(_) => vec![],
    }
}

#[derive(Serialize, Deserialize)]
pub struct ReplayFile<C> {
    pub format: u32,
    pub property: String,
    pub rule: String,
    pub class: String,
    pub detail: String,
    pub seed: u64,
    pub run: u64,
    pub case_seed: u64,
    pub shrink_executions: u64,
    pub size_before: usize,
    pub size_after: usize,
    pub case: C,
}

pub fn base_seed(prop: &str, verif_seed: u64) -> u64 {
    mix(verif_seed, str_seed(prop))
}
pub fn case_seed(prop: &str, verif_seed: u64, run: u64) -> u64 {
    mix(base_seed(prop, verif_seed), run)
}

pub fn shrink<P: Prop>(p: &P, case: &P::Case, rule: &str, budget: u64) -> (P::Case, u64) {
    let mut cur = case.clone();
    let mut execs = 0u64;
    let start = Instant::now();
    'outer: loop {
        let cands = p.shrink_candidates(&cur);
        for c in cands {
            if execs >= budget || start.elapsed().as_secs() > 60 {
                break 'outer;
            }
            execs += 1;
            let o = p.execute(&c);
            if o.violations.iter().any(|v| v.rule == rule) {
                cur = p.pin(&c);
                continue 'outer;
            }
        }
        break;
    }
    (cur, execs)
}

pub struct BatchResult {
    pub exit: i32,
}

struct WorkerAcc {
    counters: BTreeMap<&'static str, u64>,
    sigs: HashSet<u64>,
    nontrivial: u64,
    steps: u64,
    violations: Vec<(u64, Violation)>,
    first_nontrivial: BTreeSet<u64>,
    digests: Vec<(u64, u64)>,
}

pub struct Opts {
    pub verif_dir: String,
    pub seed: u64,
    pub tier: Tier,
    pub workers: usize,
    pub runs_override: Option<u64>,
    pub write_evidence: bool,
    pub digest_only: bool,
}

pub fn run_batch<P: Prop>(p: &P, o: &Opts) -> i32 {
    let t0 = Instant::now();
    let runs = o.runs_override.unwrap_or_else(|| p.runs(o.tier));
    let next = AtomicU64::new(0);
    let accs: Mutex<Vec<WorkerAcc>> = Mutex::new(vec![]);
    let id = p.id();
    println!("VERIF_SEED={} property={} tier={} runs={} workers={}", o.seed, id, o.tier.name(), runs, o.workers);
    std::thread::scope(|s| {
        for _ in 0..o.workers {
            s.spawn(|| {
                let mut acc = WorkerAcc {
                    counters: BTreeMap::new(),
                    sigs: HashSet::new(),
                    nontrivial: 0,
                    steps: 0,
                    violations: vec![],
                    first_nontrivial: BTreeSet::new(),
                    digests: vec![],
                };
                loop {
                    let r = next.fetch_add(1, Ordering::Relaxed);
                    if r >= runs {
                        break;
                    }
                    let cs = case_seed(id, o.seed, r);
                    let case = p.generate(cs, o.tier);
                    let out = p.execute(&case);
                    for (k, v) in &out.counters {
                        *acc.counters.entry(k).or_insert(0) += *v;
                    }
                    acc.steps += out.steps;
                    if out.nontrivial {
                        acc.nontrivial += 1;
                        acc.sigs.insert(out.sig);
                        if acc.first_nontrivial.len() < 3 || r < *acc.first_nontrivial.iter().next_back().unwrap() {
                            acc.first_nontrivial.insert(r);
                            if acc.first_nontrivial.len() > 3 {
                                let last = *acc.first_nontrivial.iter().next_back().unwrap();
                                acc.first_nontrivial.remove(&last);
                            }
                        }
                    }
                    for v in out.violations {
                        if acc.violations.len() < 10_000 {
                            acc.violations.push((r, v));
                        }
                    }
                    acc.digests.push((r, out.digest));
                }
                accs.lock().unwrap().push(acc);
            });
        }
    });
    let accs = accs.into_inner().unwrap();
    // ---- reduce (order independent of worker count)
    let mut counters: BTreeMap<&'static str, u64> = BTreeMap::new();
    let mut sigs: HashSet<u64> = HashSet::new();
    let mut nontrivial = 0u64;
    let mut steps = 0u64;
    let mut violations: Vec<(u64, Violation)> = vec![];
    let mut firsts: BTreeSet<u64> = BTreeSet::new();
    let mut digests: Vec<(u64, u64)> = vec![];
    for a in accs {
        for (k, v) in a.counters {
            *counters.entry(k).or_insert(0) += v;
        }
        sigs.extend(a.sigs);
        nontrivial += a.nontrivial;
        steps += a.steps;
        violations.extend(a.violations);
        firsts.extend(a.first_nontrivial);
        digests.extend(a.digests);
    }
    digests.sort();
    let mut batch_digest = crate::prng::Digest::new();
    for (r, d) in &digests {
        batch_digest.u64(*r);
        batch_digest.u64(*d);
    }
    violations.sort_by(|a, b| a.0.cmp(&b.0).then(a.1.rule.cmp(&b.1.rule)));
    let wall_runs = t0.elapsed().as_secs_f64();
    println!(
        "batch: runs={} nontrivial={} distinct_signatures={} steps={} violations={} digest={:016x} wall={:.1}s",
        runs,
        nontrivial,
        sigs.len(),
        steps,
        violations.len(),
        batch_digest.0,
        wall_runs
    );
    if o.digest_only {
        println!("DIGEST {} {:016x}", id, batch_digest.0);
        for (k, v) in &counters {
            println!("COUNTER {} {}", k, v);
        }
        return 0;
    }

    // ---- regression replays: minimised cases of defects that were repaired; they must stay repaired
    let mut regress_total = 0u64;
    let mut regress_failed: Vec<(String, String)> = vec![];
    if let Ok(rd) = std::fs::read_dir(format!("{}/regress/{}", o.verif_dir, id)) {
        let mut files: Vec<String> = rd.filter_map(|e| e.ok()).map(|e| e.path().to_string_lossy().to_string()).filter(|p| p.ends_with(".json")).collect();
        files.sort();
        for f in files {
            let text = match std::fs::read_to_string(&f) {
                Ok(t) => t,
                Err(_) => continue,
            };
            let rf: ReplayFile<P::Case> = match serde_json::from_str(&text) {
                Ok(x) => x,
                Err(e) => {
                    eprintln!("harness error: cannot parse regression replay {}: {}", f, e);
                    return 2;
                }
            };
            regress_total += 1;
            let out = p.execute(&rf.case);
            if let Some(v) = out.violations.iter().find(|v| v.rule == rf.rule) {
                println!("regression: rule={} class={} detail={}", v.rule, v.class, v.detail);
                regress_failed.push((v.rule.clone(), f.clone()));
            }
        }
    }
    println!("regression replays: {} executed, {} reproduce a repaired defect", regress_total, regress_failed.len());

    // ---- violations: one replay per distinct (rule, class), smallest run first
    let known = load_known(&o.verif_dir);
    let mut seen: BTreeSet<(String, String)> = BTreeSet::new();
    let mut reported_known: Vec<String> = vec![];
    let mut reported_new: Vec<(String, String)> = vec![];
    for (rule, f) in &regress_failed {
        println!("VIOLATION property={} replay={}", id, f);
        reported_new.push((rule.clone(), f.clone()));
    }
    let mut per_rule_counts: BTreeMap<String, u64> = BTreeMap::new();
    for (_, v) in &violations {
        *per_rule_counts.entry(format!("{} [{}]", v.rule, v.class)).or_insert(0) += 1;
    }
    for (k, n) in &per_rule_counts {
        println!("violation-class: {} x{}", k, n);
    }
    for (r, v) in &violations {
        let key = (v.rule.clone(), v.class.clone());
        if seen.contains(&key) {
            continue;
        }
        seen.insert(key);
        let kf = known.iter().find(|k| k.property == id && k.rule == v.rule && k.class == v.class && k.status == "known");
        if let Some(k) = kf {
            let line = format!("KNOWN-FINDING: property={} rule={} class={} first_run={} occurrences={} :: {}", id, v.rule, v.class, r, per_rule_counts[&format!("{} [{}]", v.rule, v.class)], k.what);
            println!("{}", line);
            reported_known.push(line);
            continue;
        }
        if reported_new.len() >= 5 {
            continue;
        }
        // minimise and write a replay file
        let cs = case_seed(id, o.seed, *r);
        let case = p.pin(&p.generate(cs, o.tier));
        let size_before = p.size(&case);
        let (small, execs) = shrink(p, &case, &v.rule, 2000);
        let out = p.execute(&small);
        let vv = out.violations.iter().find(|x| x.rule == v.rule).cloned().unwrap_or_else(|| v.clone());
        let path = format!("{}/replays/{}-{}-{}-{}.json", o.verif_dir, id, o.seed, r, sanitize(&v.rule));
        let rf = ReplayFile {
            format: 1,
            property: id.to_string(),
            rule: vv.rule.clone(),
            class: vv.class.clone(),
            detail: vv.detail.clone(),
            seed: o.seed,
            run: *r,
            case_seed: cs,
            shrink_executions: execs,
            size_before,
            size_after: p.size(&small),
            case: small,
        };
        let _ = std::fs::create_dir_all(format!("{}/replays", o.verif_dir));
        std::fs::write(&path, serde_json::to_string_pretty(&rf).unwrap()).expect("write replay");
        println!("violation: rule={} class={} run={} detail={}", vv.rule, vv.class, r, vv.detail);
        println!("VIOLATION property={} replay={}", id, path);
        reported_new.push((vv.rule.clone(), path));
    }

    // ---- evidence
    if o.write_evidence {
        let mut samples: Vec<serde_json::Value> = vec![];
        for r in firsts.iter().take(3) {
            let cs = case_seed(id, o.seed, *r);
            let case = p.pin(&p.generate(cs, o.tier));
            samples.push(serde_json::json!({"run": r, "case_seed": cs, "case": serde_json::to_value(&case).unwrap()}));
        }
        if samples.is_empty() {
            let cs = case_seed(id, o.seed, 0);
            samples.push(serde_json::json!({"run": 0, "case_seed": cs, "case": serde_json::to_value(&p.generate(cs, o.tier)).unwrap(), "note": "no non-trivial run in this batch"}));
        }
        let wall = t0.elapsed().as_secs_f64();
        let (real, stub) = p.components();
        let fault_counts: BTreeMap<String, u64> = counters.iter().filter(|(k, _)| k.starts_with("fault.")).map(|(k, v)| (k.to_string(), *v)).collect();
        let probe_counts: BTreeMap<String, u64> = counters.iter().filter(|(k, _)| k.starts_with("probe.")).map(|(k, v)| (k.to_string(), *v)).collect();
        let other_counts: BTreeMap<String, u64> = counters.iter().filter(|(k, _)| !k.starts_with("probe.") && !k.starts_with("fault.")).map(|(k, v)| (k.to_string(), *v)).collect();
        let ev = serde_json::json!({
            "property_id": id,
            "tier": o.tier.name(),
            "seed": o.seed,
            "level": "exploration",
            "coverage": {
                "evaluations": runs,
                "distinct_nontrivial": sigs.len(),
                "nontrivial_runs": nontrivial,
                "rule": p.rule_text(),
                "samples": samples,
                "runs_per_hour": if wall_runs > 0.0 { (runs as f64 / wall_runs * 3600.0) as u64 } else { 0 },
                "seeds_per_hour": if wall_runs > 0.0 { (runs as f64 / wall_runs * 3600.0) as u64 } else { 0 },
                "simulated_time_logical_steps": steps,
                "fault_kinds_declared": p.fault_kinds(),
                "faults_fired": fault_counts,
                "probes": probe_counts,
                "counters": other_counts,
                "violation_counts_by_rule_and_class": per_rule_counts,
                "known_findings_matched": reported_known,
                "regression_replays_executed": regress_total,
                "regression_replays_failing": regress_failed.len(),
                "batch_digest": format!("{:016x}", batch_digest.0),
                "components": {"real": real, "stub": stub},
                "workers": o.workers,
                "exhaustive": false
            },
            "assumptions": p.assumptions(),
            "wall_s": wall,
            "violations": reported_new.len()
        });
        let _ = std::fs::create_dir_all(format!("{}/evidence", o.verif_dir));
        let path = format!("{}/evidence/{}.json", o.verif_dir, id);
        std::fs::write(&path, serde_json::to_string_pretty(&ev).unwrap()).expect("write evidence");
        println!("evidence: {}", path);
    }
    if reported_new.is_empty() {
        println!("RESULT property={} held on everything explored ({} runs, {} non-trivial, {} known finding(s))", id, runs, nontrivial, reported_known.len());
        0
    } else {
        1
    }
}

fn sanitize(s: &str) -> String {
    s.chars().map(|c| if c.is_ascii_alphanumeric() { c } else { '_' }).collect()
}

/// Re-execute a replay file in this (fresh) process. Exit 1 + VIOLATION line when it reproduces,
/// 2 when it does not (a harness error, never "held").
pub fn replay<P: Prop>(p: &P, path: &str, text: &str) -> i32 {
    let rf: ReplayFile<P::Case> = match serde_json::from_str(text) {
        Ok(x) => x,
        Err(e) => {
            eprintln!("harness error: cannot parse replay {}: {}", path, e);
            return 2;
        }
    };
    let out = p.execute(&rf.case);
    match out.violations.iter().find(|v| v.rule == rf.rule) {
        Some(v) => {
            println!("replayed: rule={} class={} detail={}", v.rule, v.class, v.detail);
            println!("VIOLATION property={} replay={}", p.id(), path);
            1
        }
        None => {
            println!("replay of {} did not reproduce rule {} (other violations: {:?})", path, rf.rule, out.violations.iter().map(|v| v.rule.clone()).collect::<Vec<_>>());
            2
        }
    }
}

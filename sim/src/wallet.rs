//! Wallet sessions: the seeded history generator shared by the builder properties
//! (C03, C05, C06, C07, C09, C10, C16, C18, C19, C20) and the signing step.
use crate::ctl::RngPlan;
use crate::exec::{self, BuiltObs, History};
use crate::oracle::{self, Ctx, Required, TxView};
use crate::prng::Rng;
use crate::runner::Tier;
use crate::scn::*;
use crate::sess;
use crate::world::*;
use cardano_serialization_lib as csl;
use std::cell::RefCell;
use std::collections::{BTreeMap, BTreeSet};

pub const NKEYS: u16 = 10;

/// Feature weights of a profile (per-mille probabilities unless noted).
#[derive(Clone, Debug)]
pub struct Profile {
    pub name: &'static str,
    pub vary_knobs: u64,
    pub byron: u64,
    pub native_inputs: u64,
    pub plutus: u64,
    pub ref_scripts: u64,
    pub assets: u64,
    pub certs: u64,
    pub legacy_certs: u64,
    pub script_certs: u64,
    pub withdrawals: u64,
    pub mint: u64,
    pub burn: u64,
    pub votes: u64,
    pub proposals: u64,
    pub metadata: u64,
    pub req_signers: u64,
    pub ref_inputs: u64,
    pub extra_datums: u64,
    pub misc_fields: u64,
    pub fee_requests: u64,
    pub collateral_helper: u64,
    pub collateral_manual: u64,
    pub tight: u64,
    pub width_edges: u64,
    pub out_features: u64,
    pub many_assets: u64,
    pub overlap_keys: u64,
    pub repeat_build: u64,
    pub post_balance_noise: u64,
    pub max_ops_scale: u64,
    pub corrections: u64,
    pub alt_datums: u64,
    /// wallets holding more than 2^32 lovelace (change coins that need the widest encoding)
    pub whale: u64,
    /// outputs whose datum length is swept so that min-ADA lands on a coin-width boundary
    pub boundary_outputs: u64,
    /// max_value_size drawn finely (150..450) so that some change bundle ends within a few bytes of it
    pub fine_value_limit: u64,
    /// removals, deprecated setters and mint entry points, inputs handed over again
    pub removals: u64,
    /// coins_per_byte drawn finely (150..420) so that the minimum ADA of ordinary outputs lands on the 2^16 coin-width edge
    pub fine_cpb: u64,
    /// adaptive boundary worlds: run the session once, then move one offered amount so that the last
    /// (change) output's coin lands just above a CBOR width edge (DESIGN §3.2)
    pub adaptive: u64,
    /// requested outputs that arrive through `TransactionOutput::from_bytes` in array or map form
    pub decoded_outputs: u64,
    /// read-only observer calls and clone hand-overs sprinkled into the history
    pub observers: u64,
    /// collections whose element count sits on the 23/24 CBOR head edge (outputs, withdrawals,
    /// certificates, required signers, assets of one policy, offered UTxOs)
    pub many: u64,
    /// deposits, refunds and withdrawals whose sums sit at the 64-bit boundary (C20's overflow clause)
    pub huge: u64,
    /// certificates / proposals decoded from another producer's encoding, and the same certificate handed over twice
    pub alt_values: u64,
    /// the final build goes through `build_tx_unsafe` (only the checks that can judge such a transaction enable it)
    pub unsafe_builds: u64,
}

impl Profile {
    pub fn base(name: &'static str) -> Profile {
        Profile {
            name,
            vary_knobs: 500,
            byron: 150,
            native_inputs: 150,
            plutus: 150,
            ref_scripts: 300,
            assets: 400,
            certs: 300,
            legacy_certs: 0,
            script_certs: 200,
            withdrawals: 200,
            mint: 200,
            burn: 300,
            votes: 100,
            proposals: 100,
            metadata: 150,
            req_signers: 150,
            ref_inputs: 100,
            extra_datums: 100,
            misc_fields: 150,
            fee_requests: 80,
            collateral_helper: 300,
            collateral_manual: 300,
            tight: 300,
            width_edges: 150,
            out_features: 200,
            many_assets: 100,
            overlap_keys: 300,
            repeat_build: 0,
            post_balance_noise: 50,
            max_ops_scale: 1,
            corrections: 120,
            alt_datums: 300,
            whale: 60,
            boundary_outputs: 0,
            fine_value_limit: 0,
            removals: 80,
            fine_cpb: 0,
            adaptive: 0,
            decoded_outputs: 120,
            observers: 120,
            many: 60,
            huge: 0,
            alt_values: 150,
            unsafe_builds: 0,
        }
    }
}

fn pm(r: &mut Rng, p: u64) -> bool {
    r.below(1000) < p
}

pub struct Gen<'p> {
    pub r: Rng,
    pub p: &'p Profile,
    pub k: Knobs,
    pub w: World,
    next_tx: u32,
    red: u32,
    pub native_ids: Vec<ScriptId>,
    pub plutus_ids: Vec<ScriptId>,
    pub ref_holder: BTreeMap<ScriptId, usize>,
    pub datum_holder: BTreeMap<DatumId, usize>,
    pub key_pool: u16,
    pub many: bool,
    pub huge: bool,
}

impl<'p> Gen<'p> {
    pub fn new(seed: u64, p: &'p Profile) -> Gen<'p> {
        let mut r = Rng::stream(seed, 1);
        let vary = pm(&mut r, p.vary_knobs);
        let mut k = sess::gen_knobs(&mut r, vary);
        if pm(&mut r, p.fine_cpb) {
            k.cpb = 150 + r.below(270);
        }
        if pm(&mut r, p.fine_value_limit) {
            k.max_value_size = 150 + r.below(300) as u32;
        }
        // sessions with Plutus need prices
        if k.ex_prices.is_none() {
            k.ex_prices = Some((577, 10000, 721, 10000000));
        }
        if k.ref_script_price.is_none() {
            k.ref_script_price = Some((15, 1));
        }
        let many = pm(&mut r, p.many);
        let huge = pm(&mut r, p.huge);
        let key_pool = if many { 40 } else if pm(&mut r, p.overlap_keys) { 2 + r.below(2) as u16 } else { NKEYS };
        let w = World { network: r.below(2) as u8, magic: if r.chance(1, 2) { 764824073 } else { 1097911063 }, scripts: vec![], datums: vec![], utxos: vec![], decoded_scripts: false };
        let mut g = Gen { r, p, k, w, next_tx: 1, red: 1, native_ids: vec![], plutus_ids: vec![], ref_holder: BTreeMap::new(), datum_holder: BTreeMap::new(), key_pool, many, huge };
        g.make_scripts();
        g.make_datums();
        g.w.decoded_scripts = pm(&mut g.r, g.p.alt_values);
        g
    }

    pub fn kid(&mut self) -> KeyId {
        self.r.below(self.key_pool as u64) as u16
    }

    fn ns(&mut self, depth: u8) -> Ns {
        let c = if depth >= 2 { 0 } else { self.r.below(8) };
        match c {
            0..=3 => Ns::Pk(self.kid()),
            4 => {
                let n = 1 + self.r.below(3);
                Ns::All((0..n).map(|_| self.ns(depth + 1)).collect())
            }
            5 => {
                let n = 1 + self.r.below(3);
                Ns::Any((0..n).map(|_| self.ns(depth + 1)).collect())
            }
            6 => {
                let n = 1 + self.r.below(3);
                let need = if self.r.chance(1, 6) { 0 } else { 1 + self.r.below(n) as u32 };
                Ns::NofK(need, (0..n).map(|_| self.ns(depth + 1)).collect())
            }
            _ => {
                let t = if self.r.chance(1, 2) { Ns::After(self.r.range(0, 1 << 33)) } else { Ns::Before(self.r.range(1, 1 << 33)) };
                if self.r.chance(1, 3) {
                    // a key or a time condition: spendable without any signature once the time has come
                    Ns::Any(vec![Ns::Pk(self.kid()), t])
                } else {
                    Ns::All(vec![Ns::Pk(self.kid()), t])
                }
            }
        }
    }

    fn make_scripts(&mut self) {
        let nn = 2 + self.r.below(3);
        for _ in 0..nn {
            let s = ScriptSpec::Native(self.ns(0));
            if !self.w.scripts.contains(&s) {
                self.native_ids.push(self.w.scripts.len() as u16);
                self.w.scripts.push(s);
            }
        }
        let np = 2 + self.r.below(3);
        for i in 0..np {
            let lang = 1 + self.r.below(3) as u8;
            let len = *self.r.pick(&[1u32, 20, 64, 65, 200, 1000, 3000]);
            let s = ScriptSpec::Plutus { lang, len, fill: i as u8 * 17 + lang };
            if !self.w.scripts.contains(&s) {
                self.plutus_ids.push(self.w.scripts.len() as u16);
                self.w.scripts.push(s);
            }
        }
        if self.r.chance(1, 4) && !self.plutus_ids.is_empty() {
            // the same compiled bytes registered under another language version (another script hash)
            let id = *self.r.pick(&self.plutus_ids.clone());
            if let ScriptSpec::Plutus { lang, len, fill } = self.w.scripts[id as usize].clone() {
                let s = ScriptSpec::Plutus { lang: 1 + (lang % 3), len, fill };
                if !self.w.scripts.contains(&s) {
                    self.plutus_ids.push(self.w.scripts.len() as u16);
                    self.w.scripts.push(s);
                }
            }
        }
    }

    fn pd(&mut self, depth: u8) -> Pd {
        let c = if depth >= 2 { self.r.below(3) } else { self.r.below(7) };
        match c {
            0 => Pd::Int(self.r.range(0, 1 << 40) as i64 - (1 << 20)),
            1 => Pd::Bytes(*self.r.pick(&[0u16, 1, 28, 32, 64, 65, 130]), self.r.below(200) as u8),
            2 if self.r.chance(1, 3) => {
                // magnitudes around 2^512: the byte string under tag 2 / 3 crosses the 64-byte bound
                let bits = *self.r.pick(&[504u32, 511, 512, 513, 520, 600]);
                let v = (num_bigint::BigUint::from(1u8) << bits) + num_bigint::BigUint::from(self.r.below(3)) - num_bigint::BigUint::from(1u8);
                Pd::Big(format!("{}{}", if self.r.chance(1, 2) { "-" } else { "" }, v))
            }
            2 => Pd::Big(format!("{}{}", if self.r.chance(1, 2) { "-" } else { "" }, "18446744073709551616123")),
            3 => {
                let n = self.r.below(3);
                Pd::List((0..n).map(|_| self.pd(depth + 1)).collect())
            }
            4 | 5 => {
                let n = self.r.below(3);
                let alt = *self.r.pick(&[0u64, 1, 6, 7, 127, 128, 1000]);
                Pd::Constr(alt, (0..n).map(|_| self.pd(depth + 1)).collect())
            }
            _ => {
                let n = self.r.below(3);
                Pd::Map((0..n).map(|i| (Pd::Int(i as i64), self.pd(depth + 1))).collect())
            }
        }
    }

    fn make_datums(&mut self) {
        let n = 2 + self.r.below(4);
        for _ in 0..n {
            let d = self.pd(0);
            self.w.datums.push(d);
        }
        if self.r.chance(1, 3) {
            // a repeated datum value under a second id
            let d = self.w.datums[0].clone();
            self.w.datums.push(d);
        }
        if pm(&mut self.r, self.p.alt_datums) {
            // the same value as another peer encoded it (arrives through from_bytes): equal value, other bytes
            let i = self.r.usize_below(self.w.datums.len());
            let d = self.w.datums[i].clone();
            if !matches!(d, Pd::Alt(..)) {
                self.w.datums.push(Pd::Alt(Box::new(d), self.r.below(250) as u8));
            }
        }
    }

    pub fn new_utxo(&mut self, addr: AddrSpec, coin: u64, assets: Vec<AssetQ>, datum: Option<DatumAt>, script_ref: Option<ScriptId>) -> usize {
        let tx = self.next_tx;
        self.next_tx += 1;
        let share = self.r.chance(1, 5) && tx > 1;
        let u = Utxo { tx: if share { tx - 1 } else { tx }, ix: if share { 100 + tx } else { *self.r.pick(&[0u32, 0, 1, 2, 23, 24, 255, 256]) }, addr, coin, empty_ma: if assets.is_empty() { self.r.chance(1, 12) } else { self.r.chance(1, 40) }, assets, datum, script_ref };
        self.w.utxos.push(u);
        self.w.utxos.len() - 1
    }

    pub fn key_addr(&mut self) -> AddrSpec {
        let byron = self.p.byron;
        let kp = self.key_pool;
        sess::gen_key_addr(&mut self.r, kp, byron)
    }

    pub fn min_ada(&self, extra_bytes: u64) -> u64 {
        sess::approx_min_ada(&self.k, 70 + extra_bytes).max(1)
    }

    pub fn asset_classes(&mut self) -> Vec<(u16, Vec<u8>)> {
        let n = if pm(&mut self.r, self.p.many_assets) { 4 + self.r.below(30) as usize } else { 1 + self.r.below(4) as usize };
        let npol = 1 + self.r.below(if n > 6 { 8 } else { 3 }) as u16;
        let mut v: Vec<(u16, Vec<u8>)> = vec![];
        for i in 0..n {
            // policies: raw ones (>= 1000) and sometimes a world script (mintable / burnable)
            let p = if self.r.chance(1, 4) && !self.native_ids.is_empty() { *self.r.pick(&self.native_ids.clone()) } else { 1000 + (i as u16 % npol) };
            let mut name = sess::gen_asset_name(&mut self.r);
            if n > 6 {
                name = format!("nft{:03}", i).into_bytes();
            }
            if !v.contains(&(p, name.clone())) {
                v.push((p, name));
            }
        }
        v
    }

    pub fn amount(&mut self) -> u64 {
        if pm(&mut self.r, self.p.width_edges) {
            let e = *self.r.pick(&[255u64, 256, 65535, 65536, 4294967295, 4294967296, 1 << 40]);
            let d = self.r.below(3);
            return e + d - 1;
        }
        let hi = *self.r.pick(&[3u64, 100, 70000, 5_000_000, 5_000_000_000]);
        1 + self.r.below(hi)
    }

    fn wit_native(&mut self, s: ScriptId, allow_ref: bool) -> Wit {
        let how = if allow_ref && pm(&mut self.r, self.p.ref_scripts) { ScriptUse::Ref(self.holder_of(s)) } else { ScriptUse::Witness };
        let mut keys = vec![];
        if let ScriptSpec::Native(ns) = &self.w.scripts[s as usize] {
            ns.keys(&mut keys);
        }
        // truthful declaration: a script used by reference declares the keys that will sign (all of
        // them, or - one time in four - a non-empty subset as a wallet would for any/n-of-k scripts);
        // the keys a history declares are the native-script signers the oracle signs with
        let subset = self.r.chance(1, 4) && keys.len() > 1;
        let chosen = if subset {
            let mut k2: Vec<KeyId> = keys.iter().cloned().filter(|_| self.r.chance(1, 2)).collect();
            if k2.is_empty() {
                k2.push(keys[self.r.usize_below(keys.len())]);
            }
            k2
        } else {
            keys
        };
        // a script that its time conditions alone satisfy: the wallet may truthfully declare that nobody signs for it
        let keyless = matches!(&self.w.scripts[s as usize], ScriptSpec::Native(ns) if ns.keyless());
        let chosen = if keyless && self.r.chance(1, 2) { vec![] } else { chosen };
        let subset = subset || chosen.is_empty();
        let signers = match how {
            ScriptUse::Ref(_) => Some(chosen),
            ScriptUse::Witness => {
                if subset || self.r.chance(1, 4) {
                    Some(chosen)
                } else {
                    None
                }
            }
        };
        Wit { script: s, how, datum: DatumUse::None, red: 0, mem: 0, steps: 0, signers }
    }

    fn holder_of(&mut self, s: ScriptId) -> usize {
        if let Some(u) = self.ref_holder.get(&s) {
            return *u;
        }
        let addr = self.key_addr();
        let coin = self.min_ada(3200) * 2;
        let u = self.new_utxo(addr, coin, vec![], None, Some(s));
        self.ref_holder.insert(s, u);
        u
    }

    fn datum_holder_of(&mut self, d: DatumId) -> usize {
        if let Some(u) = self.datum_holder.get(&d) {
            return *u;
        }
        let addr = self.key_addr();
        let coin = self.min_ada(400) * 2;
        let u = self.new_utxo(addr, coin, vec![], Some(DatumAt::Inline(d)), None);
        self.datum_holder.insert(d, u);
        u
    }

    pub fn next_red(&mut self) -> u32 {
        self.red += 1;
        self.red
    }

    fn ex(&mut self) -> (u64, u64) {
        (*self.r.pick(&[0u64, 1, 1000, 500_000, 14_000_000]), *self.r.pick(&[0u64, 1, 10_000, 200_000_000, 10_000_000_000]))
    }

    fn wit_plutus(&mut self, s: ScriptId, datum: DatumUse) -> Wit {
        let how = if pm(&mut self.r, self.p.ref_scripts) { ScriptUse::Ref(self.holder_of(s)) } else { ScriptUse::Witness };
        let (mem, steps) = self.ex();
        let signers = if self.r.chance(1, 6) { Some(vec![self.kid()]) } else { None };
        Wit { script: s, how, datum, red: self.next_red(), mem, steps, signers }
    }

    /// witness for a script credential
    pub fn wit_for(&mut self, s: ScriptId) -> Wit {
        if self.w.scripts[s as usize].is_plutus() {
            self.wit_plutus(s, DatumUse::None)
        } else {
            self.wit_native(s, true)
        }
    }

    pub fn any_cred(&mut self, script_pm: u64, allow_plutus: bool) -> Cred {
        if pm(&mut self.r, script_pm) {
            let mut pool = self.native_ids.clone();
            if allow_plutus {
                pool.extend(self.plutus_ids.clone());
            }
            if !pool.is_empty() {
                return Cred::Script(*self.r.pick(&pool));
            }
        }
        Cred::Key(self.kid())
    }

    fn drep(&mut self) -> DRepSpec {
        match self.r.below(5) {
            0 => DRepSpec::Abstain,
            1 => DRepSpec::NoConfidence,
            2 if !self.native_ids.is_empty() => DRepSpec::Script(self.native_ids[0]),
            _ => DRepSpec::Key(self.kid()),
        }
    }

    pub fn cert(&mut self, allow_plutus: bool) -> (CertSpec, Option<Wit>) {
        let sp = self.p.script_certs;
        let legacy = pm(&mut self.r, self.p.legacy_certs);
        let c = self.any_cred(sp, allow_plutus);
        let kd = self.k.key_deposit;
        let dep = if self.huge && self.r.chance(1, 2) {
            *self.r.pick(&[1u64 << 63, (1u64 << 63) - 1, u64::MAX, u64::MAX - kd, u64::MAX / 2, (1u64 << 62) + 1, u64::MAX - 2_000_000])
        } else {
            *self.r.pick(&[0u64, 1, kd, 2_000_000, 65536, 500_000_000])
        };
        let kind = if legacy { self.r.below(22) } else { self.r.below(19) };
        let spec = match kind {
            0 => CertSpec::StakeReg(c.clone()),
            1 => CertSpec::StakeRegCoin(c.clone(), dep),
            2 => CertSpec::StakeDereg(c.clone()),
            3 => CertSpec::StakeDeregCoin(c.clone(), dep),
            4 => CertSpec::StakeDeleg(c.clone(), self.kid()),
            5 => {
                let no = self.r.below(3);
                let owners = (0..no).map(|_| self.kid()).collect();
                CertSpec::PoolReg { operator: self.kid(), owners, reward: Cred::Key(self.kid()), pledge: self.amount(), cost: 340_000_000 + self.r.below(64), relays: self.r.below(8) as u8, meta: self.r.chance(1, 2) }
            }
            6 => CertSpec::PoolRetire(self.kid(), self.r.below(500) as u32),
            7 => CertSpec::CommitteeHotAuth(c.clone(), self.any_cred(200, false)),
            8 => CertSpec::CommitteeColdResign(c.clone(), self.r.chance(1, 2)),
            9 => CertSpec::DRepReg(c.clone(), dep, self.r.chance(1, 2)),
            10 => CertSpec::DRepDereg(c.clone(), dep),
            11 => CertSpec::DRepUpdate(c.clone(), self.r.chance(1, 2)),
            12 => CertSpec::StakeVoteDeleg(c.clone(), self.kid(), self.drep()),
            13 => CertSpec::VoteDeleg(c.clone(), self.drep()),
            14 => CertSpec::StakeRegDeleg(c.clone(), self.kid(), dep),
            15 => CertSpec::VoteRegDeleg(c.clone(), self.drep(), dep),
            16 => CertSpec::StakeVoteRegDeleg(c.clone(), self.kid(), self.drep(), dep),
            17 => CertSpec::StakeDeleg(c.clone(), self.kid()),
            18 => CertSpec::VoteDeleg(c.clone(), self.drep()),
            19 => CertSpec::GenesisDeleg(self.r.below(5) as u8, self.r.below(5) as u8, self.r.below(5) as u8),
            20 => CertSpec::MirPot(self.r.below(2) as u8, self.amount()),
            _ => {
                let n = 1 + self.r.below(3);
                CertSpec::MirCreds(self.r.below(2) as u8, (0..n).map(|_| (Cred::Key(self.kid()), self.r.below(1000) as i64)).collect())
            }
        };
        // which credential needs a script witness?
        let cred = match &spec {
            CertSpec::StakeReg(_) => None,
            CertSpec::StakeRegCoin(c, _) | CertSpec::StakeDereg(c) | CertSpec::StakeDeregCoin(c, _) | CertSpec::StakeDeleg(c, _) | CertSpec::CommitteeHotAuth(c, _) | CertSpec::CommitteeColdResign(c, _) | CertSpec::DRepReg(c, ..) | CertSpec::DRepDereg(c, _) | CertSpec::DRepUpdate(c, _) | CertSpec::StakeVoteDeleg(c, ..) | CertSpec::VoteDeleg(c, _) | CertSpec::StakeRegDeleg(c, ..) | CertSpec::VoteRegDeleg(c, ..) | CertSpec::StakeVoteRegDeleg(c, ..) => Some(c.clone()),
            _ => None,
        };
        let wit = match cred {
            Some(Cred::Script(s)) => Some(self.wit_for(s)),
            _ => None,
        };
        (spec, wit)
    }

    pub fn rng_plan(&mut self, seed: u64) -> RngPlan {
        let mut rr = Rng::stream(seed, 2);
        sess::gen_rng_plan(&mut rr)
    }
}

#[derive(Default, Debug)]
pub struct Plan {
    pub pre: Vec<Op>,
    /// operations that must come after everything in `pre` (replacements of earlier entries)
    pub pre_tail: Vec<Op>,
    pub uses_plutus: bool,
    pub langs: u8,
    pub need: u128,
    pub have: u128,
    pub asset_need: BTreeMap<(u16, Vec<u8>), u64>,
}

/// serialized size of an output as the library writes it (a measuring device of the generator only)
fn probe_output_size(w: &World, o: &OutSpec) -> u64 {
    let mut out = csl::TransactionOutput::new(&w.address(&o.addr), &w.value(o.coin, &o.assets));
    match &o.datum {
        Some(DatumAt::Hash(d)) if (*d as usize) < w.datums.len() => out.set_data_hash(&csl::hash_plutus_data(&w.datum(*d))),
        Some(DatumAt::Inline(d)) if (*d as usize) < w.datums.len() => out.set_plutus_data(&w.datum(*d)),
        _ => {}
    }
    if let Some(s) = o.script_ref {
        if (s as usize) < w.scripts.len() {
            out.set_script_ref(&w.script_val(s).script_ref());
        }
    }
    out.to_bytes().len() as u64
}

/// Swarm variation: one run in four redraws the feature mix itself (each feature switched off, left
/// alone or made dominant), so that correctness never silently depends on one property's profile.
fn swarm_variant(seed: u64, p: &Profile) -> Profile {
    let mut r = Rng::stream(seed, 5);
    let mut q = p.clone();
    if !r.chance(1, 4) {
        return q;
    }
    for w in [
        &mut q.byron,
        &mut q.native_inputs,
        &mut q.plutus,
        &mut q.ref_scripts,
        &mut q.assets,
        &mut q.certs,
        &mut q.script_certs,
        &mut q.withdrawals,
        &mut q.mint,
        &mut q.burn,
        &mut q.votes,
        &mut q.proposals,
        &mut q.metadata,
        &mut q.req_signers,
        &mut q.ref_inputs,
        &mut q.extra_datums,
        &mut q.misc_fields,
        &mut q.fee_requests,
        &mut q.collateral_helper,
        &mut q.collateral_manual,
        &mut q.tight,
        &mut q.width_edges,
        &mut q.out_features,
        &mut q.many_assets,
        &mut q.overlap_keys,
        &mut q.removals,
        &mut q.decoded_outputs,
        &mut q.observers,
        &mut q.alt_values,
    ] {
        match r.below(8) {
            0..=2 => *w = 0,
            3 => *w = 850,
            4 => *w = 400,
            _ => {}
        }
    }
    q
}

/// One coherent wallet session.
pub fn generate(seed: u64, tier: Tier, p: &Profile) -> Scenario {
    let pv = swarm_variant(seed, p);
    let p = &pv;
    let mut g = Gen::new(seed, p);
    let mut plan = Plan::default();
    let classes = g.asset_classes();
    let use_assets = pm(&mut g.r, p.assets);
    let change_addr = g.key_addr();

    // ---- explicit inputs of special kinds
    let mut explicit_value: u128 = 0;
    if pm(&mut g.r, p.native_inputs) {
        let n = 1 + g.r.below(2);
        for _ in 0..n {
            let s = *g.r.pick(&g.native_ids.clone());
            let coin = g.min_ada(0) + g.amount() % 50_000_000;
            let addr = if g.r.chance(1, 2) { AddrSpec::Ent(Cred::Script(s)) } else { AddrSpec::Base(Cred::Script(s), Cred::Key(g.kid())) };
            let u = g.new_utxo(addr, coin, vec![], None, None);
            let wit = g.wit_native(s, true);
            if pm(&mut g.r, p.corrections) {
                // the same input handed over twice, with two (truthful) declarations of who signs for the
                // script; whichever call comes later replaces the other
                let other = g.wit_native(s, true);
                plan.pre.push(Op::InScript { utxo: u, wit: other, by_utxo: g.r.chance(1, 2), mistaken: None });
            }
            plan.pre.push(Op::InScript { utxo: u, wit, by_utxo: g.r.chance(1, 2), mistaken: None });
            explicit_value += coin as u128;
        }
    }
    if pm(&mut g.r, p.plutus) && !g.plutus_ids.is_empty() {
        let n = 1 + g.r.below(3);
        let mut last_plutus_wit: Option<Wit> = None;
        // (own stream: sessions without this feature stay as they were) a Plutus-locked UTxO that carries a reference
        // script of its own - priced by the ledger like any other reference script, also when the validator of the
        // UTxO is itself read from a reference input.  Only the `*_utxo` entry points are told the output, so every
        // hand-over of such a UTxO goes through them.
        let mut r8 = Rng::stream(seed, 8);
        for _ in 0..n {
            let own_sref: Option<u16> = if r8.chance(1, 6) { Some(r8.below(g.w.scripts.len() as u64) as u16) } else { None };
            let s = match &last_plutus_wit {
                Some(prev) if g.r.chance(1, 3) => prev.script,
                _ => *g.r.pick(&g.plutus_ids.clone()),
            };
            let coin = g.min_ada(100) + g.amount() % 50_000_000;
            let d = g.r.below(g.w.datums.len() as u64) as u16;
            let lang = g.w.scripts[s as usize].lang().unwrap();
            // V1 needs a datum hash + witness datum; V2/V3 may use inline or reference datums
            // V1 needs a datum hash + witness datum; V2/V3 may also carry the datum inline, in which
            // case the datum source is nothing or the spent UTxO itself ("datum is in this input")
            let (at, du_self) = match g.r.below(if lang == 1 { 1 } else { 4 }) {
                0 | 3 => (Some(DatumAt::Hash(d)), None),
                1 => (Some(DatumAt::Inline(d)), Some(false)),
                _ => (Some(DatumAt::Inline(d)), Some(true)),
            };
            let addr = if g.r.chance(1, 2) { AddrSpec::Ent(Cred::Script(s)) } else { AddrSpec::Base(Cred::Script(s), Cred::Key(g.kid())) };
            let assets = if use_assets && g.r.chance(1, 3) { vec![AssetQ { p: classes[0].0, n: classes[0].1.clone(), q: g.amount() }] } else { vec![] };
            let u = g.new_utxo(addr, coin + g.min_ada(60) * assets.len() as u64 + if own_sref.is_some() { g.min_ada(3200) } else { 0 }, assets, at, own_sref);
            let du = match du_self {
                None => DatumUse::Witness(d),
                Some(false) => DatumUse::None,
                // "the datum is in a reference input": the spent UTxO itself, or another UTxO that carries the same
                // datum inline (listed for the script to read; the spent UTxO has its datum inline anyway)
                Some(true) => {
                    if g.r.chance(1, 2) {
                        DatumUse::Ref(u)
                    } else {
                        DatumUse::Ref(g.datum_holder_of(d))
                    }
                }
            };
            let mut wit = g.wit_plutus(s, du);
            // two UTxOs of one validator are often spent with the very same redeemer (same payload, same budget)
            if let Some(prev) = &last_plutus_wit {
                if prev.script == s && g.r.chance(1, 2) {
                    wit.red = prev.red;
                    wit.mem = prev.mem;
                    wit.steps = prev.steps;
                }
            }
            last_plutus_wit = Some(wit.clone());
            // sometimes the wallet first adds one of its own key UTxOs by mistake as an input of
            // this script and then corrects itself (the second call replaces the first)
            if pm(&mut g.r, p.corrections) {
                let mut w2 = wit.clone();
                w2.red = g.next_red();
                w2.signers = None;
                if g.r.chance(1, 2) {
                    // the script offered by mistake may be one that nothing else in the transaction uses (its
                    // language must not leak into the script data hash), inline
                    w2.script = *g.r.pick(&g.plutus_ids.clone());
                    w2.how = ScriptUse::Witness;
                }
                w2.datum = match &w2.datum {
                    DatumUse::Ref(_) => DatumUse::None,
                    d => d.clone(),
                };
                let kaddr = loop {
                    let a = g.key_addr();
                    if !matches!(a, AddrSpec::Byron(_) | AddrSpec::ByronPath(..)) {
                        break a;
                    }
                };
                let kcoin = g.min_ada(0) + g.amount() % 20_000_000;
                let ku = g.new_utxo(kaddr, kcoin, vec![], None, None);
                plan.pre.push(Op::InScriptThenRegular { utxo: ku, wit: w2, checked: g.r.chance(1, 2) });
            }
            if pm(&mut g.r, p.corrections) {
                // the redeemer is corrected: the same input is handed over again with another one
                // (either order of entry points); the later witness is the one that counts
                let mut first = wit.clone();
                first.red = g.next_red();
                plan.pre.push(Op::InScript { utxo: u, wit: first, by_utxo: g.r.chance(1, 2) || own_sref.is_some(), mistaken: None });
            }
            let mistaken = if pm(&mut g.r, p.corrections) {
                // first handed over with another Plutus script of the world by mistake
                let cands: Vec<u16> = (0..g.w.scripts.len() as u16).filter(|s| *s != wit.script && g.w.scripts[*s as usize].is_plutus()).collect();
                if cands.is_empty() { None } else { Some(*g.r.pick(&cands)) }
            } else {
                None
            };
            plan.pre.push(Op::InScript { utxo: u, wit, by_utxo: g.r.chance(1, 2) || own_sref.is_some(), mistaken: mistaken.map(|m| if g.r.chance(1, 3) { m | 0x4000 } else { m }) });
            plan.uses_plutus = true;
            plan.langs |= 1 << (lang - 1);
            explicit_value += coin as u128;
        }
    }
    let _ = explicit_value;

    // ---- outputs
    let edge_count = |g: &mut Gen| -> Option<u64> { if g.many && g.r.chance(1, 3) { Some(22 + g.r.below(4)) } else { None } };
    let n_out = match edge_count(&mut g) {
        Some(n) => n as usize,
        None => *g.r.pick(&[0usize, 1, 1, 1, 2, 2, 3, 5]),
    };
    for i in 0..n_out {
        let mut assets = vec![];
        if use_assets && g.r.chance(1, 2) {
            let kmax = classes.len().min(if pm(&mut g.r, p.many_assets) { 20 } else { 3 });
            let k = 1 + g.r.usize_below(kmax);
            for j in 0..k {
                let (pp, n) = classes[(i + j) % classes.len()].clone();
                if !assets.iter().any(|a: &AssetQ| a.p == pp && a.n == n) {
                    let q = g.amount();
                    *plan.asset_need.entry((pp, n.clone())).or_insert(0) += q;
                    assets.push(AssetQ { p: pp, n, q });
                }
            }
        }
        let feat = pm(&mut g.r, p.out_features);
        let boundary = pm(&mut g.r, p.boundary_outputs);
        let datum = if boundary {
            // sweep the output size across the point where cpb x (160 + size) crosses a CBOR width edge
            let edge = *g.r.pick(&[256u64, 65536, 65536]);
            let target_size = (edge / g.k.cpb.max(1)).saturating_sub(160);
            let len = (target_size.saturating_add(g.r.below(90))).saturating_sub(130).min(4000) as u16;
            g.w.datums.push(Pd::Bytes(len, g.r.below(200) as u8));
            let d = (g.w.datums.len() - 1) as u16;
            Some(DatumAt::Inline(d))
        } else if feat && g.r.chance(1, 2) {
            let d = g.r.below(g.w.datums.len() as u64) as u16;
            Some(if g.r.chance(1, 2) { DatumAt::Hash(d) } else { DatumAt::Inline(d) })
        } else {
            None
        };
        let script_ref = if feat && g.r.chance(1, 3) { Some(g.r.below(g.w.scripts.len() as u64) as u16) } else { None };
        let extra = 60 * assets.len() as u64 + if datum.is_some() { 150 } else { 0 } + if script_ref.is_some() { 3100 } else { 0 };
        let min_coin = g.r.chance(1, 4) || (boundary && g.r.chance(2, 3));
        let coin = if min_coin { 0 } else { g.min_ada(extra) + if g.r.chance(1, 2) { g.amount() % 100_000_000 } else { 0 } };
        let addr = if g.r.chance(1, 8) { AddrSpec::Ent(Cred::Script(*g.r.pick(&g.plutus_ids.clone()))) } else { g.key_addr() };
        // one requested output in twelve carries a little less than it needs at its own size (refused, F4)
        let coin = if !min_coin && g.r.chance(1, 12) {
            let size = probe_output_size(&g.w, &OutSpec { addr: addr.clone(), coin: 1 << 20, assets: assets.clone(), datum: datum.clone(), script_ref, min_coin: false, form: 0 });
            let need_exact = g.k.cpb * (160 + size);
            let span = g.k.cpb * *g.r.pick(&[1u64, 8, 40, 400]) + 1;
            need_exact.saturating_sub(1 + g.r.below(span)).max(1)
        } else {
            coin
        };
        plan.need += if min_coin { g.min_ada(extra) as u128 } else { coin as u128 };
        let form = if pm(&mut g.r, p.decoded_outputs) { 1 + g.r.below(3) as u8 } else { 0 };
        // an output with an inline datum at exactly its minimum ADA, and then "the same" output whose datum arrives in
        // another producer's longer encoding (equal as a value, not in size): the second one has to be measured on its own
        if let Some(DatumAt::Inline(d)) = &datum {
            let twin = g.w.datums.iter().position(|x| matches!(x, Pd::Alt(inner, _) if **inner == g.w.datums[*d as usize])).map(|t| t as u16);
            if let (Some(t), true, 0) = (twin, g.r.chance(1, 2), form) {
                let mut first = OutSpec { addr: addr.clone(), coin: 1 << 20, assets: assets.clone(), datum: datum.clone(), script_ref, min_coin: false, form: 0 };
                first.coin = g.k.cpb * (160 + probe_output_size(&g.w, &first));
                let second = OutSpec { datum: Some(DatumAt::Inline(t)), ..first.clone() };
                plan.need += 2 * first.coin as u128;
                for a in &assets {
                    *plan.asset_need.entry((a.p, a.n.clone())).or_insert(0) += 2 * a.q;
                }
                plan.pre_tail.push(Op::Out(first));
                plan.pre_tail.push(Op::Out(second));
            }
        }
        plan.pre.push(Op::Out(OutSpec { addr, coin, assets, datum, script_ref, min_coin, form }));
    }

    // ---- certificates
    if pm(&mut g.r, p.certs) {
        let n = edge_count(&mut g).unwrap_or(1 + g.r.below(if p.max_ops_scale > 1 { 8 } else { 3 }));
        for _ in 0..n {
            let (c, wit) = g.cert(true);
            if let Some(w) = &wit {
                if g.w.scripts[w.script as usize].is_plutus() {
                    plan.uses_plutus = true;
                    plan.langs |= 1 << (g.w.scripts[w.script as usize].lang().unwrap() - 1);
                }
            }
            match &c {
                CertSpec::StakeReg(_) => plan.need += g.k.key_deposit as u128,
                CertSpec::StakeRegCoin(_, d) | CertSpec::DRepReg(_, d, _) | CertSpec::StakeRegDeleg(_, _, d) | CertSpec::VoteRegDeleg(_, _, d) | CertSpec::StakeVoteRegDeleg(_, _, _, d) => plan.need += *d as u128,
                CertSpec::PoolReg { .. } => plan.need += g.k.pool_deposit as u128,
                CertSpec::StakeDereg(_) => plan.have += g.k.key_deposit as u128,
                CertSpec::StakeDeregCoin(_, d) | CertSpec::DRepDereg(_, d) => plan.have += *d as u128,
                _ => {}
            }
            if let CertSpec::PoolRetire(op_key, _) = &c {
                if g.r.chance(1, 2) {
                    // the retirement is called off in the same transaction: the pool registers again afterwards
                    // (every registration in a body is charged as a first one, says the property)
                    let reg = CertSpec::PoolReg { operator: *op_key, owners: vec![*op_key], reward: Cred::Key(g.kid()), pledge: g.amount(), cost: 340_000_000 + g.r.below(64), relays: g.r.below(3) as u8, meta: g.r.chance(1, 2) };
                    plan.need += g.k.pool_deposit as u128;
                    plan.pre_tail.push(Op::Cert(reg, None));
                }
            }
            if wit.is_none() && g.r.chance(1, 8) {
                // the same certificate handed over a second time (refused, or - for a set - held once)
                plan.pre_tail.push(Op::Cert(c.clone(), None));
            }
            if wit.is_some() && g.r.chance(1, 10) {
                // a mistaken first attempt: the plain entry point for a certificate that needs a script witness (refused)
                plan.pre.push(Op::Cert(c.clone(), None));
            }
            if let Some(w1) = &wit {
                if g.r.chance(1, 8) {
                    // the same script certificate handed over again with another witness (refused: the first one stays)
                    let mut w2 = g.wit_for(w1.script);
                    if w2.how == w1.how {
                        w2.signers = match &w1.signers {
                            Some(_) => None,
                            None => Some(vec![g.kid()]),
                        };
                    }
                    plan.pre_tail.push(Op::Cert(c.clone(), Some(w2)));
                }
            }
            if wit.is_none() && !g.plutus_ids.is_empty() && g.r.chance(1, 10) {
                // a mistaken first attempt: a Plutus witness offered for a certificate that needs none (refused)
                let s = *g.r.pick(&g.plutus_ids.clone());
                let w = g.wit_plutus(s, DatumUse::None);
                plan.pre.push(Op::Cert(c.clone(), Some(w)));
            }
            plan.pre.push(Op::Cert(c, wit));
        }
    }
    // ---- withdrawals
    if pm(&mut g.r, p.withdrawals) {
        let many_w = edge_count(&mut g);
        let n = many_w.unwrap_or(1 + g.r.below(3));
        let mut seen: BTreeSet<Cred> = BTreeSet::new();
        let mut added_wdrs: Vec<(Cred, Option<Wit>)> = vec![];
        for wi in 0..n {
            let sp = p.script_certs;
            let c = if many_w.is_some() && wi >= 2 { Cred::Key(wi as u16) } else { g.any_cred(sp, true) };
            let amt = if g.huge && g.r.chance(1, 2) { *g.r.pick(&[1u64 << 63, u64::MAX, (1u64 << 63) - 1, u64::MAX - 1_000_000]) } else { g.amount() % 100_000_000 };
            if !seen.insert(c.clone()) {
                // the same key account registered again replaces the earlier amount; script accounts are not repeated
                if let Cred::Key(_) = &c {
                    if g.r.chance(1, 2) {
                        plan.pre_tail.push(Op::Wdr(c, amt, None));
                        plan.have += amt as u128;
                    }
                }
                continue;
            }
            // "withdraw zero": a script account is withdrawn from only to make its script run
            let amt = if matches!(c, Cred::Script(_)) && g.r.chance(1, 3) { 0 } else { amt };
            if matches!(c, Cred::Key(_)) && !g.plutus_ids.is_empty() && g.r.chance(1, 12) {
                // a mistaken first attempt: a Plutus witness offered for a key account (refused)
                let s = *g.r.pick(&g.plutus_ids.clone());
                let w = g.wit_plutus(s, DatumUse::None);
                plan.pre.push(Op::Wdr(c.clone(), amt, Some(w)));
            }
            let wit = match &c {
                Cred::Script(s) => {
                    let w = g.wit_for(*s);
                    if g.w.scripts[*s as usize].is_plutus() {
                        plan.uses_plutus = true;
                        plan.langs |= 1 << (g.w.scripts[*s as usize].lang().unwrap() - 1);
                    }
                    Some(w)
                }
                _ => None,
            };
            plan.have += amt as u128;
            if wit.is_some() && g.r.chance(1, 10) {
                // a mistaken first attempt without the witness the script account needs (refused)
                plan.pre.push(Op::Wdr(c.clone(), amt, None));
            }
            added_wdrs.push((c.clone(), wit.clone()));
            plan.pre.push(Op::Wdr(c, amt, wit));
        }
        if added_wdrs.len() >= 2 && g.r.chance(1, 3) {
            // one of the accounts is registered a second time after all the others (a corrected amount; for a Plutus
            // account a new redeemer with the same script source): the later call replaces the earlier one, and the
            // accounts keep the ledger's order
            let (c, wit) = added_wdrs[g.r.usize_below(added_wdrs.len() - 1)].clone();
            let wit = wit.map(|mut w| {
                if g.w.scripts[w.script as usize].is_plutus() {
                    w.red = g.next_red();
                }
                w
            });
            let amt = 1 + g.amount() % 50_000_000;
            plan.have += amt as u128;
            plan.pre_tail.push(Op::Wdr(c, amt, wit));
        }
    }
    // ---- mint / burn
    let mut burn_assets: Vec<AssetQ> = vec![];
    if pm(&mut g.r, p.mint) && g.r.chance(1, 6) {
        // a mistaken call: a mint of nothing under a policy that is never minted in this transaction (refused, F4:
        // no trace of the policy may reach the body or the witness set)
        let s = *g.r.pick(&g.native_ids.clone());
        let wit = Wit { script: s, how: ScriptUse::Witness, datum: DatumUse::None, red: 0, mem: 0, steps: 0, signers: None };
        plan.pre.push(Op::Mint { wit, name: b"nothing".to_vec(), qty: 0, set: g.r.chance(1, 2) });
    }
    if pm(&mut g.r, p.mint) {
        let n = 1 + g.r.below(3);
        for _ in 0..n {
            let plutus = pm(&mut g.r, p.plutus) && !g.plutus_ids.is_empty();
            let s = if plutus { *g.r.pick(&g.plutus_ids.clone()) } else { *g.r.pick(&g.native_ids.clone()) };
            let mut wit = if plutus { g.wit_plutus(s, DatumUse::None) } else { g.wit_native(s, true) };

            if plutus {
                plan.uses_plutus = true;
                plan.langs |= 1 << (g.w.scripts[s as usize].lang().unwrap() - 1);
            }
            let name = sess::gen_asset_name(&mut g.r);
            let burn = pm(&mut g.r, p.burn);
            let q = 1 + g.amount() % 1_000_000;
            if burn {
                burn_assets.push(AssetQ { p: s, n: name.clone(), q: q + g.r.below(3) });
                plan.pre.push(Op::Mint { wit, name, qty: -(q as i64), set: g.r.chance(1, 3) });
            } else if g.r.chance(1, 4) && !plutus && wit.how == ScriptUse::Witness {
                let addr = g.key_addr();
                let coin = if g.r.chance(1, 2) { Some(g.min_ada(80) + g.amount() % 10_000_000) } else { None };
                plan.need += coin.unwrap_or(g.min_ada(80)) as u128;
                plan.pre.push(Op::MintAndOut { script: s, name, qty: q, addr, coin });
            } else {
                if let Some(extra) = edge_count(&mut g) {
                    // many assets under the same policy (the asset map's head crosses the 23/24 edge)
                    for ai in 0..extra {
                        plan.pre_tail.push(Op::Mint { wit: wit.clone(), name: format!("m{:02}", ai).into_bytes(), qty: 1 + (ai as i64), set: false });
                    }
                }
                if pm(&mut g.r, p.removals) {
                    // the same asset minted and burnt again in later calls: the entries cancel out
                    plan.pre_tail.push(Op::Mint { wit: wit.clone(), name: name.clone(), qty: -(q as i64), set: false });
                }
                if !plutus && wit.how == ScriptUse::Witness && wit.signers.is_none() && g.r.chance(1, 4) {
                    // later the whole mint is handed back through the old whole-collection setter (now and then with a
                    // script missing: refused)
                    plan.pre_tail.push(Op::SetMintLegacy(g.r.chance(1, 3)));
                }
                plan.pre.push(Op::Mint { wit, name, qty: q as i64, set: g.r.chance(1, 3) });
            }
        }
    }
    // ---- governance
    if pm(&mut g.r, p.votes) {
        let n = 1 + g.r.below(3);
        for _ in 0..n {
            let sp = p.script_certs;
            let voter = match g.r.below(3) {
                0 => VoterSpec::Pool(g.kid()),
                1 => VoterSpec::DRep(g.any_cred(sp, true)),
                _ => VoterSpec::CcHot(g.any_cred(sp, true)),
            };
            let wit = match &voter {
                VoterSpec::DRep(Cred::Script(s)) | VoterSpec::CcHot(Cred::Script(s)) => {
                    if g.w.scripts[*s as usize].is_plutus() {
                        plan.uses_plutus = true;
                        plan.langs |= 1 << (g.w.scripts[*s as usize].lang().unwrap() - 1);
                    }
                    Some(g.wit_for(*s))
                }
                _ => None,
            };
            if wit.is_some() && g.r.chance(1, 6) {
                // a mistaken attempt: a vote of a script voter through the plain entry point (refused; nothing may stay behind)
                // (half of the time for another script voter, who never gets a proper vote afterwards)
                let other = if g.r.chance(1, 2) && !g.native_ids.is_empty() {
                    let o = VoterSpec::CcHot(Cred::Script(g.native_ids[0]));
                    if o == voter {
                        VoterSpec::DRep(Cred::Script(g.native_ids[0]))
                    } else {
                        o
                    }
                } else {
                    voter.clone()
                };
                plan.pre.push(Op::Vote { voter: other, action: (7, 7), vote: 1, anchor: false, wit: None });
            }
            plan.pre.push(Op::Vote { voter, action: (g.r.below(3) as u32, g.r.below(3) as u32), vote: g.r.below(3) as u8, anchor: g.r.chance(1, 3), wit });
        }
    }
    if pm(&mut g.r, p.proposals) {
        let n = 1 + g.r.below(2);
        for _ in 0..n {
            let prev = if g.r.chance(1, 2) { Some((g.r.below(3) as u32, g.r.below(3) as u32)) } else { None };
            let pol = if g.r.chance(1, 4) && !g.plutus_ids.is_empty() { Some(*g.r.pick(&g.plutus_ids.clone())) } else { None };
            let action = match g.r.below(7) {
                0 => ActionSpec::ParamChange { prev, policy: pol, fields: g.r.below(256) as u8 },
                1 => ActionSpec::HardFork { prev, major: 10, minor: g.r.below(3) as u32 },
                2 => {
                    let m = 1 + g.r.below(3);
                    ActionSpec::TreasuryWdr { to: (0..m).map(|_| (Cred::Key(g.kid()), g.amount())).collect(), policy: pol }
                }
                3 => ActionSpec::NoConfidence { prev },
                4 => {
                    let k1 = g.kid();
                    let k2 = (k1 + 1) % g.key_pool.max(2);
                    ActionSpec::UpdateCommittee { prev, remove: vec![Cred::Key(k1), Cred::Key(k2)], add: vec![(Cred::Key(g.kid()), g.r.below(600) as u32)], q: (2, 3) }
                }
                5 => ActionSpec::NewConstitution { prev, script: if g.r.chance(1, 3) { Some(g.native_ids[0]) } else { None } },
                _ => ActionSpec::Info,
            };
            let has_policy = matches!(&action, ActionSpec::ParamChange { policy: Some(_), .. } | ActionSpec::TreasuryWdr { policy: Some(_), .. });
            let deposit = if g.huge && g.r.chance(1, 2) { *g.r.pick(&[1u64 << 63, u64::MAX, (1u64 << 63) - 1]) } else { *g.r.pick(&[0u64, 1_000_000, 100_000_000_000, 65536]) };
            let wit = if has_policy {
                let s = pol.unwrap();
                plan.uses_plutus = true;
                plan.langs |= 1 << (g.w.scripts[s as usize].lang().unwrap() - 1);
                Some(g.wit_plutus(s, DatumUse::None))
            } else {
                None
            };
            plan.need += deposit as u128;
            let reward = Cred::Key(g.kid());
            if let ActionSpec::UpdateCommittee { prev, remove, add, q } = &action {
                if g.r.chance(1, 3) {
                    // a second proposal that differs only in the order its members-to-remove were listed
                    let mut rev = remove.clone();
                    rev.reverse();
                    plan.need += deposit as u128;
                    plan.pre.push(Op::Propose(ProposalSpec { deposit, reward: reward.clone(), action: ActionSpec::UpdateCommittee { prev: *prev, remove: rev, add: add.clone(), q: *q }, mirror: 0 }, None));
                }
            }
            if wit.is_none() && g.r.chance(1, 5) {
                // the same proposal once more, its document published under a mirror url (another proposal on the wire)
                plan.need += deposit as u128;
                plan.pre.push(Op::Propose(ProposalSpec { deposit, reward: reward.clone(), action: action.clone(), mirror: 1 + g.r.below(2) as u8 }, None));
            }
            if let ActionSpec::UpdateCommittee { prev, remove, add, q } = &action {
                if g.r.chance(1, 3) {
                    // the same proposal with its quorum spelled another way (4/6 for 2/3): another proposal on the wire
                    plan.need += deposit as u128;
                    plan.pre.push(Op::Propose(ProposalSpec { deposit, reward: reward.clone(), action: ActionSpec::UpdateCommittee { prev: *prev, remove: remove.clone(), add: add.clone(), q: (q.0 * 2, q.1 * 2) }, mirror: 0 }, None));
                }
            }
            if wit.is_some() && g.r.chance(1, 4) {
                // a mistaken attempt: the proposal names a guardrails script and is handed to the plain entry point
                // (refused, F4: nothing of it may stay behind - not in the body, not in the deposit the builder charges)
                plan.pre.push(Op::Propose(ProposalSpec { deposit, reward: reward.clone(), action: action.clone(), mirror: 0 }, None));
            }
            plan.pre.push(Op::Propose(ProposalSpec { deposit, reward, action, mirror: 0 }, wit));
        }
    }
    // ---- misc
    if pm(&mut g.r, p.metadata) {
        let n = 1 + g.r.below(2);
        for _ in 0..n {
            let kinds = if g.r.chance(1, 6) { 6 } else { 5 };
            let m = match g.r.below(kinds) {
                5 => MetaSpec::Empty(g.r.below(3) as u8),
                4 => MetaSpec::Text(g.r.below(1000), *g.r.pick(&[1u8, 21, 22, 32, 33, 63, 64, 65]), *g.r.pick(&[1u8, 1, 2, 3])),
                0 => MetaSpec::Json(g.r.below(1000), g.r.below(255) as u8),
                1 => MetaSpec::AuxScripts { native: vec![g.native_ids[0]], plutus: if g.r.chance(1, 2) && !g.plutus_ids.is_empty() { vec![g.plutus_ids[0]] } else { vec![] }, prefer_alonzo: g.r.chance(1, 2) },
                _ => MetaSpec::Metadatum(g.r.below(1 << 20), g.r.below(255) as u8),
            };
            plan.pre.push(Op::Meta(m));
        }
        if g.r.chance(1, 5) {
            // metadata and nothing else, in the post-Alonzo container (tag 259 around a map with key 0 only)
            plan.pre_tail.push(Op::Meta(MetaSpec::Metadatum(g.r.below(1 << 20), g.r.below(255) as u8)));
            plan.pre_tail.push(Op::Meta(MetaSpec::AuxScripts { native: vec![], plutus: vec![], prefer_alonzo: true }));
        }
    }
    if pm(&mut g.r, p.req_signers) {
        let many_s = edge_count(&mut g);
        let n = many_s.unwrap_or(1 + g.r.below(3));
        for si in 0..n {
            let k = if many_s.is_some() { si as u16 } else { g.kid() };
            plan.pre.push(if g.r.chance(1, 4) { Op::InReqSigner(k) } else { Op::ReqSigner(k) });
        }
    }
    if pm(&mut g.r, p.ref_inputs) {
        let n = 1 + g.r.below(4);
        for _ in 0..n {
            let with_script = g.r.chance(1, 2);
            if g.r.chance(1, 6) && !g.ref_holder.is_empty() {
                // listed plainly (no size) although a script source may refer to the same UTxO with a size
                let holders: Vec<usize> = g.ref_holder.values().cloned().collect();
                let u = *g.r.pick(&holders);
                plan.pre.push(Op::RefIn(u, false));
                continue;
            }
            let u = if with_script {
                let s = g.r.below(g.w.scripts.len() as u64) as u16;
                g.holder_of(s)
            } else {
                let addr = g.key_addr();
                let coin = g.min_ada(0) * 2;
                g.new_utxo(addr, coin, vec![], None, None)
            };
            plan.pre.push(Op::RefIn(u, with_script));
        }
    }
    if pm(&mut g.r, p.extra_datums) {
        let d = g.r.below(g.w.datums.len() as u64) as u16;
        plan.pre.push(Op::ExtraDatum(d));
        if g.r.chance(1, 3) {
            plan.pre.push(Op::ExtraDatum(d));
        }
    }
    if pm(&mut g.r, p.misc_fields) {
        if g.r.chance(1, 2) {
            plan.pre.push(Op::Ttl(g.amount()));
        }
        if g.r.chance(1, 3) {
            plan.pre.push(Op::Start(g.amount()));
        }
        if g.r.chance(1, 3) {
            // (the smallest legal donations and the CBOR width edges next to ordinary amounts)
            let d = if g.r.chance(1, 4) { *g.r.pick(&[1u64, 2, 23, 24, 255, 256, 65535, 65536]) } else { g.amount() % 50_000_000 };
            plan.need += d as u128;
            plan.pre.push(Op::Donation(d));
        }
        if g.r.chance(1, 4) {
            plan.pre.push(Op::Treasury(g.amount()));
        }
    }
    if pm(&mut g.r, p.removals) {
        // removals, the deprecated whole-collection setters and the deprecated mint entry points
        for _ in 0..(1 + g.r.below(2)) {
            match g.r.below(13) {
                12 => plan.pre_tail.push(Op::SetMintLegacy(g.r.chance(1, 3))),
                8..=10 => {
                    // everything of one kind is taken out again - now and then right after the builder was asked for its
                    // figures (a figure it remembers must not survive the removal) - and sometimes one item comes back
                    if g.r.chance(1, 2) {
                        plan.pre_tail.push(Op::Observe);
                    }
                    match g.r.below(3) {
                        0 => {
                            plan.pre_tail.push(Op::RemoveCerts);
                            if g.r.chance(1, 3) {
                                let (c, w) = g.cert(false);
                                plan.pre_tail.push(Op::Cert(c, w));
                            }
                        }
                        1 => {
                            plan.pre_tail.push(Op::RemoveWithdrawals);
                            if g.r.chance(1, 3) {
                                let k = g.kid();
                                plan.pre_tail.push(Op::Wdr(Cred::Key(k), 1 + g.amount() % 5_000_000, None));
                            }
                        }
                        _ => plan.pre_tail.push(Op::RemoveMint),
                    }
                }
                0 => plan.pre.push(Op::RemoveTtl),
                1 => plan.pre.push(Op::RemoveStart),
                2 => plan.pre.push(Op::RemoveAux),
                3 => {
                    if g.r.chance(1, 2) && !g.native_ids.is_empty() {
                        // the old setter is handed one certificate it must refuse (script credential): nothing may change
                        let s = g.native_ids[0];
                        plan.pre_tail.push(Op::SetCertsLegacyWith(CertSpec::StakeDeleg(Cred::Script(s), g.kid())));
                    } else {
                        plan.pre_tail.push(Op::SetCertsLegacy);
                    }
                }
                4 => plan.pre_tail.push(Op::SetWithdrawalsLegacy),
                5 | 6 => {
                    let s = *g.r.pick(&g.native_ids.clone());
                    let name = sess::gen_asset_name(&mut g.r);
                    let q = 1 + g.amount() % 100_000;
                    plan.pre.push(Op::MintLegacy { script: s, name, qty: q as i64, set: g.r.chance(1, 2) });
                }
                7 => plan.pre.push(Op::RemoveScriptDataHash),
                _ => plan.pre.push(Op::RemoveTtl),
            }
        }
    }
    if pm(&mut g.r, p.fee_requests) {
        plan.pre.push(if g.r.chance(2, 3) { Op::FeeMin(*g.r.pick(&[0u64, 170_000, 250_000, 1_000_000, 65536, 4294967296])) } else { Op::FeeExact(*g.r.pick(&[200_000u64, 400_000, 1_000_000, 5_000_000])) });
    }

    // ---- collateral
    let mut coll_ops: Vec<Op> = vec![];
    let mut helper_pct: Option<u64> = None;
    let mut failing_pct_helper = false;
    let want_coll = plan.uses_plutus || g.r.chance(1, 12);
    if want_coll {
        let n = 1 + g.r.below(3);
        let mut total: u64 = 0;
        let mut cassets: Vec<AssetQ> = vec![];
        for _ in 0..n {
            let coin = 5_000_000 + g.amount() % 20_000_000 + g.min_ada(100);
            let assets: Vec<AssetQ> = if use_assets && g.r.chance(1, 4) {
                // one to three asset classes (often several names under one policy)
                let k = 1 + g.r.usize_below(3.min(classes.len()));
                (0..k).map(|j| AssetQ { p: classes[j].0, n: classes[j].1.clone(), q: 1 + g.amount() % 1000 }).collect()
            } else {
                vec![]
            };
            cassets.extend(assets.clone());
            let addr = g.key_addr();
            let u = g.new_utxo(addr, coin + g.min_ada(60) * assets.len() as u64, assets, None, None);
            total += g.w.utxos[u].coin;
            coll_ops.push(Op::CollUtxo(u));
        }
        if pm(&mut g.r, p.collateral_helper) {
            helper_pct = Some(*g.r.pick(&[0u64, 100, 150, 150, 200, 1000]));
        } else if pm(&mut g.r, p.collateral_manual) {
            // (a Daedalus-style Byron address is some twenty bytes longer than a base address: the return has to be measured at its own address)
            let ret_addr = if g.r.chance(1, 6) { AddrSpec::ByronPath(g.kid() % 16, *g.r.pick(&[28u8, 40])) } else { g.key_addr() };
            if g.r.chance(1, 2) {
                let t = *g.r.pick(&[total / 2, total / 3, 1_000_000, total, total.saturating_sub(g.min_ada(100))]);
                let t = if g.r.chance(1, 3) {
                    // the remainder is exactly what the return output needs at its own address (long Byron addresses
                    // need more than a base address), or up to a few bytes' worth less (must be refused)
                    let mut ra: BTreeMap<(u16, Vec<u8>), u64> = BTreeMap::new();
                    for a in &cassets {
                        *ra.entry((a.p, a.n.clone())).or_insert(0) += a.q;
                    }
                    let rassets: Vec<AssetQ> = ra.into_iter().map(|((p, n), q)| AssetQ { p, n, q }).collect();
                    let size = probe_output_size(&g.w, &OutSpec { addr: ret_addr.clone(), coin: 1 << 20, assets: rassets, datum: None, script_ref: None, min_coin: false, form: 0 });
                    let need = g.k.cpb * (160 + size);
                    let rem = need.saturating_sub(g.r.below(4) * g.k.cpb * g.r.below(12));
                    if rem > 0 && rem < total { total - rem } else { t }
                } else {
                    t
                };
                if g.r.chance(1, 6) {
                    // plain setters first (whatever they hold is replaced by what the checked call computes)
                    coll_ops.push(Op::CollTotal(t));
                    if g.r.chance(1, 2) {
                        // (at the address the checked call will name, or at another one)
                        let plain_addr = if g.r.chance(1, 2) { ret_addr.clone() } else { g.key_addr() };
                        coll_ops.push(Op::CollReturn(OutSpec { addr: plain_addr, coin: 1 + g.r.below(g.min_ada(0)), assets: vec![], datum: None, script_ref: None, min_coin: false, form: 0 }));
                    }
                }
                coll_ops.push(Op::CollTotalAndReturn(t, ret_addr.clone()));
                if g.r.chance(1, 6) {
                    coll_ops.push(Op::CollTotalAndReturn(t, ret_addr));
                }
            } else {
                let mut ra: BTreeMap<(u16, Vec<u8>), u64> = BTreeMap::new();
                for a in &cassets {
                    *ra.entry((a.p, a.n.clone())).or_insert(0) += a.q;
                }
                let mut assets: Vec<AssetQ> = ra.into_iter().map(|((p, n), q)| AssetQ { p, n, q }).collect();
                // return outputs with fewer / equal / more / different assets than the collateral inputs hold
                match g.r.below(8) {
                    0 if !assets.is_empty() => assets[0].q = assets[0].q.saturating_sub(1).max(1),
                    // (an excess of 2^63 or more now and then: differences that do not fit a signed word)
                    1 if !assets.is_empty() => assets[0].q += if g.r.chance(1, 3) { (1u64 << 63) + g.r.below(1000) } else { 1 + g.r.below(5) },
                    2 => assets.push(AssetQ { p: 2000 + g.r.below(3) as u16, n: b"foreign".to_vec(), q: if g.r.chance(1, 3) { (1u64 << 63) + g.r.below(1000) } else { 1 + g.r.below(100) } }),
                    3 if !assets.is_empty() => {
                        let at = g.r.usize_below(assets.len());
                        assets.remove(at);
                    }
                    5 if assets.len() >= 2 => {
                        // keep only one asset, with less than the inputs hold
                        let at = g.r.usize_below(assets.len());
                        let a = assets[at].clone();
                        assets = vec![AssetQ { q: a.q.saturating_sub(1).max(1), ..a }];
                    }
                    4 if !classes.is_empty() => {
                        let c = classes[classes.len() - 1].clone();
                        if !assets.iter().any(|a| a.p == c.0 && a.n == c.1) {
                            assets.push(AssetQ { p: c.0, n: c.1, q: 1 + g.r.below(10) });
                        }
                    }
                    _ => {}
                }
                // now and then the return output carries a datum or a reference script (a full output is allowed there)
                let (rdatum, rsref) = if g.r.chance(1, 4) {
                    let d = g.r.below(g.w.datums.len() as u64) as u16;
                    match g.r.below(3) {
                        0 => (Some(DatumAt::Hash(d)), None),
                        1 => (Some(DatumAt::Inline(d)), None),
                        _ => (None, Some(g.r.below(g.w.scripts.len() as u64) as u16)),
                    }
                } else {
                    (None, None)
                };
                let extra = 60 * assets.len() as u64 + if rdatum.is_some() { 40 } else { 0 } + if rsref.is_some() { 60 } else { 0 };
                let coin = match g.r.below(5) {
                    0 => g.min_ada(extra) - 1 - g.r.below(1000),
                    1 => total,
                    2 => total + 1,
                    3 if rdatum.is_some() || rsref.is_some() => g.min_ada(60 * assets.len() as u64) + g.r.below(150_000),
                    3 | 4 if g.k.cpb <= 420 => 65536 + g.r.below(300),
                    _ => (total / 2).max(g.min_ada(extra)),
                };
                let mut coin = coin;
                if pm(&mut g.r, p.fine_cpb) && g.r.chance(1, 2) {
                    // adaptive: coins_per_byte chosen (only ever lowered) so that this return's minimum ADA sits
                    // on the 2^16 coin-width edge, and a coin just at / above the edge
                    let probe = OutSpec { addr: ret_addr.clone(), coin: 65536, assets: assets.clone(), datum: rdatum.clone(), script_ref: rsref, min_coin: false, form: 0 };
                    let size = probe_output_size(&g.w, &probe);
                    if size > 0 {
                        // floor or floor + 1: with the latter the real bound (coin written with 5 bytes) lies just
                        // above 2^16 while the bound for a narrower coin lies just below
                        let want = 65536 / (160 + size) + g.r.below(2);
                        if want >= 1 && want <= g.k.cpb {
                            g.k.cpb = want;
                            coin = 65536 + g.r.below(want + 2);
                        }
                    }
                }
                let mut main = OutSpec { addr: ret_addr, coin, assets, datum: rdatum, script_ref: rsref, min_coin: false, form: 0 };
                // the same inline datum as another producer encoded it (equal value, other and longer bytes), if the world has one
                let twin = match &main.datum {
                    Some(DatumAt::Inline(d)) => g.w.datums.iter().position(|x| matches!(x, Pd::Alt(inner, _) if **inner == g.w.datums[*d as usize])).map(|t| t as u16),
                    _ => None,
                };
                if twin.is_some() && g.r.chance(1, 2) {
                    // the coin is exactly what the first form of the return needs
                    let size = probe_output_size(&g.w, &OutSpec { coin: 1 << 20, ..main.clone() });
                    main.coin = g.k.cpb * (160 + size);
                }
                {
                    // adaptive (own stream, so that all other sessions stay as they were): max_value_size is lowered to
                    // the very size of the value of an explicit return that holds exactly the assets of the collateral
                    // inputs (accepted), or to one byte less (refused for its size alone - every other guard passes, so a
                    // refusal that leaves a trace shows)
                    let mut r7 = Rng::stream(seed, 7);
                    if !cassets.is_empty() && r7.chance(1, 5) {
                        let mut ra: BTreeMap<(u16, Vec<u8>), u64> = BTreeMap::new();
                        for a in &cassets {
                            *ra.entry((a.p, a.n.clone())).or_insert(0) += a.q;
                        }
                        main.assets = ra.into_iter().map(|((p, n), q)| AssetQ { p, n, q }).collect();
                        main.coin = (total / 2).max(g.min_ada(extra + 100));
                        let vs = g.w.value(main.coin, &main.assets).to_bytes().len() as u32;
                        if vs >= 2 && vs <= g.k.max_value_size {
                            g.k.max_value_size = vs - r7.below(2) as u32;
                        }
                    }
                }
                if g.r.chance(1, 6) {
                    // the plain (unchecked) setter first, then the checked call with the very same output: it has to be measured all the same
                    coll_ops.push(Op::CollReturn(main.clone()));
                    if g.r.chance(1, 3) {
                        coll_ops.push(Op::CollTotal(total / 2));
                    }
                }
                coll_ops.push(Op::CollReturnAndTotal(main.clone()));
                if g.r.chance(1, 6) || twin.is_some() {
                    // the same call again (a retry, F6), now and then with the twin encoding of the datum: a return that
                    // is "already in place" is a new output as far as its size is concerned
                    let mut again = main.clone();
                    if let Some(t) = twin {
                        again.datum = Some(DatumAt::Inline(t));
                    }
                    coll_ops.push(Op::CollReturnAndTotal(again));
                }
            }
            if g.r.chance(1, 6) {
                // one more collateral input after the fields were computed, then the explicit-total call again:
                // it has to work from the inputs as they are now
                let coin = 3_000_000 + g.amount() % 9_000_000 + g.min_ada(100);
                let addr = g.key_addr();
                let u = g.new_utxo(addr, coin, vec![], None, None);
                total += coin;
                coll_ops.push(Op::CollUtxo(u));
                let a3 = g.key_addr();
                coll_ops.push(Op::CollTotalAndReturn(*g.r.pick(&[total / 2, total / 3, 2_000_000]), a3));
            }
            if g.r.chance(1, 8) {
                // later the percentage helper is tried although the fee is already fixed: it must fail and, as every
                // failed attempt, leave neither field set
                failing_pct_helper = true;
            }
            if g.r.chance(1, 3) {
                // a second attempt on the same builder that is likely to be refused (return below its minimum ADA)
                let a2 = g.key_addr();
                let short = g.r.below(g.min_ada(0).max(2) - 1);
                if g.r.chance(1, 2) {
                    coll_ops.push(Op::CollTotalAndReturn(total.saturating_sub(1 + short), a2));
                } else {
                    coll_ops.push(Op::CollReturnAndTotal(OutSpec { addr: a2, coin: 1 + short, assets: vec![], datum: None, script_ref: None, min_coin: false, form: 0 }));
                }
            }
        }
    }

    // ---- wallet UTxOs on offer
    let approx_fee = g.k.fee_b as u128 + g.k.fee_a as u128 * 1500 + 2_000_000;
    let need = (plan.need + approx_fee).min(1u128 << 60);
    let tight = pm(&mut g.r, p.tight);
    let n_off_edge = edge_count(&mut g);
    let n_off = if let Some(n) = n_off_edge {
        n as usize
    } else if tier == Tier::Thorough { *g.r.pick(&[1usize, 2, 3, 5, 8, 12, 20, 30, 60]) } else { *g.r.pick(&[1usize, 2, 3, 4, 5, 8, 12, 20]) };
    let mut off: Vec<usize> = vec![];
    let mut asset_left = plan.asset_need.clone();
    for b in &burn_assets {
        *asset_left.entry((b.p, b.n.clone())).or_insert(0) += b.q;
    }
    for i in 0..n_off {
        let mut assets: Vec<AssetQ> = vec![];
        // spread requested/burnt assets over the offered UTxOs, plus extra classes for change
        let keys: Vec<(u16, Vec<u8>)> = asset_left.keys().cloned().collect();
        for kx in keys {
            let left = asset_left[&kx];
            if left == 0 {
                continue;
            }
            if i + 1 == n_off || g.r.chance(1, 2) {
                let q = if i + 1 == n_off { left } else { 1 + g.r.below(left) };
                let q2 = q + if g.r.chance(1, 2) { g.amount() % 1000 } else { 0 };
                assets.push(AssetQ { p: kx.0, n: kx.1.clone(), q: q2 });
                *asset_left.get_mut(&kx).unwrap() = left - q.min(left);
            }
        }
        if use_assets && g.r.chance(1, 3) {
            let kmax = classes.len();
            let cap = if pm(&mut g.r, p.many_assets) { 30 } else { 3 };
            let k = 1 + g.r.usize_below(kmax.min(cap));
            for j in 0..k {
                let (pp, n) = classes[(i + j) % classes.len()].clone();
                if !assets.iter().any(|a| a.p == pp && a.n == n) {
                    assets.push(AssetQ { p: pp, n, q: g.amount() });
                }
            }
        }
        let base = g.min_ada(60 * assets.len() as u64);
        let coin = if tight {
            let share = (need / n_off as u128) as u64;
            let span = *g.r.pick(&[2u64, 2000, 200_000, 2_000_000]);
            base.max(share + g.r.below(span))
        } else {
            base + (need as u64 / (1 + g.r.below(n_off as u64))) + g.amount() % 200_000_000
        };
        let coin = if i == 0 && pm(&mut g.r, p.whale) { coin.saturating_add((1u64 << 32) + g.r.below(1 << 34)) } else { coin };
        let addr = g.key_addr();
        let sref = if g.r.chance(1, if g.k.dedup_ref_inputs { 8 } else { 25 }) { Some(g.r.below(g.w.scripts.len() as u64) as u16) } else { None };
        let coin = coin + if sref.is_some() { g.min_ada(3200) } else { 0 };
        off.push(g.new_utxo(addr, coin, assets, None, sref));
    }
    // uniqueness of outpoints
    let mut seen = BTreeSet::new();
    for u in g.w.utxos.iter_mut() {
        while !seen.insert((u.tx, u.ix)) {
            u.ix += 1;
        }
    }

    // the collateral may overlap with the rest of the transaction (legal: only spent and reference inputs must be
    // disjoint): a UTxO that is also spent / on offer, or the holder of a script or datum that is used by reference
    if !coll_ops.is_empty() && g.r.chance(1, 5) {
        let mut cands: Vec<usize> = g.ref_holder.values().cloned().chain(g.datum_holder.values().cloned()).collect();
        if let Some(u) = off.first() {
            cands.push(*u);
        }
        cands.retain(|u| g.w.utxos[*u].assets.is_empty() && matches!(g.w.utxos[*u].addr.pay_cred(), Some(Cred::Key(_))));
        if !cands.is_empty() {
            let u = *g.r.pick(&cands);
            // first among the collateral inputs, so that the checked calls that follow see it
            coll_ops.insert(0, Op::CollUtxo(u));
        }
    }
    // ---- assemble the history
    let mut ops: Vec<Op> = vec![];
    let mut pre = std::mem::take(&mut plan.pre);
    // inputs first half of the time, otherwise anywhere
    g.r.shuffle(&mut pre);
    pre.extend(std::mem::take(&mut plan.pre_tail));
    if plan.uses_plutus && g.r.chance(4, 5) {
        // the script data hash must be in the body before the fee is computed: a placeholder, or a
        // first calc_script_data_hash that is repeated after balancing has moved the spend indices
        if g.r.chance(1, 2) {
            pre.push(Op::PresetScriptDataHash);
        } else {
            pre.push(Op::ScriptDataHash(7));
            if g.r.chance(1, 3) {
                // one more witness datum after the hash was calculated (it is calculated again after the balancing)
                pre.push(Op::ExtraDatum(g.r.below(g.w.datums.len() as u64) as u16));
            }
        }
    }
    // collateral before or after the other preparation
    if g.r.chance(1, 2) {
        ops.extend(coll_ops.clone());
        ops.extend(pre);
    } else {
        ops.extend(pre);
        ops.extend(coll_ops.clone());
    }
    let strat = if use_assets || !burn_assets.is_empty() { *g.r.pick(&[Strategy::LFMA, Strategy::RIMA]) } else { *g.r.pick(&STRATEGIES) };
    let datum = if pm(&mut g.r, p.out_features) {
        let d = g.r.below(g.w.datums.len() as u64) as u16;
        Some(if g.r.chance(1, 2) { DatumAt::Hash(d) } else { DatumAt::Inline(d) })
    } else {
        None
    };
    let change = ChangeSpec { addr: change_addr, datum, script_ref: if pm(&mut g.r, p.out_features / 3) { Some(g.r.below(g.w.scripts.len() as u64) as u16) } else { None } };
    match (helper_pct, g.r.below(4)) {
        (Some(pct), _) => ops.push(Op::SelectChangeCollateral(strat, off.clone(), change.clone(), pct)),
        (None, 0) => {
            // explicit inputs then change only
            for u in &off {
                if g.k.dedup_ref_inputs && g.w.utxos[*u].script_ref.is_some() && g.r.chance(1, 2) {
                    // spent through an entry point that knows nothing about scripts, its reference script
                    // declared by a sized listing (either order); the option drops it from the reference inputs
                    let spend = Op::InLegacy(*u);
                    if g.r.chance(1, 2) {
                        ops.push(Op::RefIn(*u, true));
                        ops.push(spend);
                    } else {
                        ops.push(spend);
                        ops.push(Op::RefIn(*u, true));
                    }
                    continue;
                }
                ops.push(if g.r.chance(1, 6) { Op::InLegacy(*u) } else { Op::InUtxo(*u) });
            }
            let mut c = change.clone();
            if g.r.chance(3, 4) {
                c.script_ref = None;
            }
            ops.push(Op::Change(c));
        }
        (None, 1) => {
            if pm(&mut g.r, p.removals) && off.len() >= 2 {
                // a first selection is thrown away by handing the inputs builder over again
                ops.push(Op::Select(strat, off[..off.len() / 2].to_vec()));
                ops.push(Op::SetInputsAgain);
            }
            ops.push(Op::Select(strat, off.clone()));
            let mut c = change.clone();
            if g.r.chance(3, 4) {
                c.script_ref = None;
            }
            ops.push(Op::Change(c));
        }
        (None, 2) if off.len() >= 2 => {
            // F4: a first attempt with too little on offer fails or succeeds; then the rest
            let k = 1 + g.r.usize_below(off.len() - 1);
            ops.push(Op::SelectAndChange(strat, off[..k].to_vec(), change.clone()));
            ops.push(Op::SelectAndChange(strat, off[k..].to_vec(), change.clone()));
        }
        _ => ops.push(Op::SelectAndChange(strat, off.clone(), change.clone())),
    }
    if failing_pct_helper {
        // the transaction is balanced and its fee fixed: the percentage helper has to refuse, and leave neither field set
        ops.push(Op::SelectChangeCollateral(strat, vec![], change.clone(), 150));
    }
    if pm(&mut g.r, p.post_balance_noise) {
        ops.push(match g.r.below(5) {
            0 => Op::Ttl(g.amount()),
            1 => Op::ReqSigner(g.kid()),
            // a fee request that comes after the fee was fixed: the build honours it or fails, it is not dropped
            2 => Op::FeeMin(*g.r.pick(&[0u64, 170_000, 1_000_000, 5_000_000])),
            3 => Op::FeeExact(*g.r.pick(&[170_000u64, 200_000, 1_000_000])),
            _ => Op::Meta(MetaSpec::Metadatum(7, 1)),
        });
    }
    if plan.uses_plutus || g.r.chance(1, 20) {
        let langs = if g.r.chance(1, 8) { 7 } else { plan.langs | if g.r.chance(1, 4) { 1 << g.r.below(3) } else { 0 } };
        ops.push(Op::ScriptDataHash(langs));
    }
    if pm(&mut g.r, p.unsafe_builds) {
        ops.push(Op::BuildTxUnsafe);
    }
    ops.push(if g.r.chance(1, 10) { Op::Build } else { Op::BuildTx });
    if pm(&mut g.r, p.repeat_build) {
        ops.push(Op::BuildTx);
    }
    if pm(&mut g.r, p.observers) {
        for _ in 0..(1 + g.r.below(3)) {
            let at = g.r.usize_below(ops.len());
            // a body built in the middle of the history is a snapshot: the builder it came from is kept and
            // must build the same bytes again after everything that happens to the live builder later
            ops.insert(at, match g.r.below(8) { 0..=2 => Op::Observe, 3 | 4 => Op::ForkClone, 5 => Op::Build, _ => Op::HandOverAgain(1 + g.r.below(63) as u8) });
        }
    }
    let rng = g.rng_plan(seed);
    let hash_seed = Rng::stream(seed, 3).next();
    let adaptive = pm(&mut g.r, p.adaptive) && !off.is_empty();
    let alt_values = if pm(&mut g.r, p.alt_values) { 1 + g.r.below(250) as u8 } else { 0 };
    let mut sc = Scenario { knobs: g.k.clone(), world: g.w, ops, rng, hash_seed, profile: format!("wallet/{}{}", p.name, if Rng::stream(seed, 5).chance(1, 4) { "/swarm" } else { "" }), alt_values };
    if adaptive && g.r.chance(1, 2) {
        // first measurement: choose coins_per_byte so that the minimum ADA of the last (change) output
        // sits just below the 2^16 coin-width edge; only ever lowered, so requested outputs stay valid
        let probe = exec::run(&sc);
        if let Some(b) = probe.built.iter().rev().find(|b| b.full) {
            let outs = b.body.outputs();
            if outs.len() > 0 {
                let last = outs.get(outs.len() - 1);
                let coin = u64::from(last.amount().coin());
                let coin_len: u64 = if coin < 24 { 1 } else if coin <= 0xff { 2 } else if coin <= 0xffff { 3 } else if coin <= 0xffff_ffff { 5 } else { 9 };
                // size of that output if its coin needed 3 bytes (a value below 2^16)
                let size = last.to_bytes().len() as u64 - coin_len + 3;
                let want = (65535 / (160 + size)).saturating_sub(g.r.below(2));
                if want >= 1 && want <= sc.knobs.cpb {
                    sc.knobs.cpb = want;
                    sc.profile.push_str("/adaptive-cpb");
                }
            }
        }
    }
    if adaptive {
        // measure with a throw-away run, then place the change coin at / just above a width edge
        let probe = exec::run(&sc);
        if let Some(b) = probe.built.iter().rev().find(|b| b.full) {
            let outs = b.body.outputs();
            if outs.len() > 0 {
                let c_last = u64::from(outs.get(outs.len() - 1).amount().coin()) as i128;
                let edge: i128 = if sc.knobs.cpb <= 409 { *g.r.pick(&[65536i128, 65536, 256]) } else { *g.r.pick(&[4294967296i128, 65536]) };
                let target = edge + g.r.below(2 * sc.knobs.cpb + 4) as i128 - 2;
                let delta = target - c_last;
                let u = off[0];
                let nc = sc.world.utxos[u].coin as i128 + delta;
                if nc > 0 && nc < (1i128 << 62) {
                    sc.world.utxos[u].coin = nc as u64;
                    sc.profile.push_str("/adaptive");
                }
            }
        }
    }
    sc
}

// ------------------------------------------------------------------ signing

thread_local! {
    static KEY_BY_HASH: RefCell<BTreeMap<Vec<u8>, KeyId>> = RefCell::new(BTreeMap::new());
}

pub fn key_by_hash(h: &[u8]) -> Option<KeyId> {
    KEY_BY_HASH.with(|c| {
        let mut m = c.borrow_mut();
        if m.is_empty() {
            for i in 0..64u16 {
                m.insert(key(i).hash_bytes.to_vec(), i);
            }
        }
        m.get(h).cloned()
    })
}

pub fn byron_by_addr(addr: &[u8], magic: u32) -> Option<KeyId> {
    (0..64u16).find(|i| byron(*i, magic).addr_bytes == addr)
}

/// key material (and the address value) owning a Byron address of either kind
pub fn byron_mat_by_addr(addr: &[u8], magic: u32) -> Option<std::rc::Rc<ByronMat>> {
    for i in 0..64u16 {
        let b = byron(i, magic);
        if b.addr_bytes == addr {
            return Some(b);
        }
    }
    for l in [28u8, 40] {
        for i in 0..16u16 {
            let b = byron_with_path(i, magic, l);
            if b.addr_bytes == addr {
                return Some(b);
            }
        }
    }
    None
}

/// Keys the history declared on script sources, restricted to scripts the transaction requires.
pub fn declared_keys(sc: &Scenario, h: &History, upto_op: usize, required_scripts: &BTreeSet<Vec<u8>>) -> BTreeSet<Vec<u8>> {
    let mut out = BTreeSet::new();
    let mut visit = |w: &Wit| {
        if (w.script as usize) >= sc.world.scripts.len() {
            return;
        }
        let hsh = oracle::script_hash_of(&sc.world.scripts[w.script as usize]).to_vec();
        if !required_scripts.contains(&hsh) {
            return;
        }
        let keys: Vec<KeyId> = match (&sc.world.scripts[w.script as usize], &w.signers, &w.how) {
            // signers declared on a Plutus source are also listed as required signers by the
            // interpreter (the only way a Plutus script can see them); nothing to add here
            (ScriptSpec::Plutus { .. }, _, _) => vec![],
            (_, Some(s), _) => s.clone(),
            (ScriptSpec::Native(ns), None, ScriptUse::Witness) => {
                let mut v = vec![];
                ns.keys(&mut v);
                v
            }
            _ => vec![],
        };
        for k in keys {
            out.insert(key(k).hash_bytes.to_vec());
        }
    };
    let mut extra: Vec<Vec<u8>> = vec![];
    let mut seen_mint: BTreeSet<ScriptId> = BTreeSet::new();
    let mut seen_voter: BTreeSet<String> = BTreeSet::new();
    // a removal (or one of the old whole-collection setters) forgets what was declared before it
    let last_of = |f: &dyn Fn(&Op) -> bool| -> usize { sc.ops.iter().enumerate().take(upto_op).filter(|(_, o)| f(o)).map(|(i, _)| i + 1).last().unwrap_or(0) };
    let certs_from = last_of(&|o| matches!(o, Op::RemoveCerts | Op::SetCertsLegacy));
    let wdrs_from = last_of(&|o| matches!(o, Op::RemoveWithdrawals | Op::SetWithdrawalsLegacy));
    let mint_from = last_of(&|o| matches!(o, Op::RemoveMint));
    for (i, op) in sc.ops.iter().enumerate() {
        if i >= upto_op {
            continue;
        }
        match op {
            Op::Cert(..) if i < certs_from => continue,
            Op::Wdr(..) if i < wdrs_from => continue,
            Op::Mint { .. } | Op::MintAndOut { .. } | Op::MintLegacy { .. } if i < mint_from => continue,
            _ => {}
        }
        // mint-and-output is two steps inside the library: when the output half is refused the
        // mint half has already been applied (F4); the script counts whenever the transaction requires it
        let half_applied = matches!(op, Op::MintAndOut { .. })
            && match h.results.get(i) {
                // refused by add_output (after the mint half went in), not by the mint builder
                Some(crate::exec::Res::Err(e)) => e.contains("minimum UTXO value") || e.contains("Maximum value size"),
                _ => false,
            };
        if !half_applied && !h.results.get(i).map_or(false, |r| r.is_ok()) {
            continue;
        }
        match op {
            // an input handed over again replaces the earlier hand-over: the last successful one counts
            Op::InScript { utxo, wit, .. } => {
                let later = sc.ops.iter().enumerate().take(upto_op).skip(i + 1).any(|(j, o)| matches!(o, Op::InScript { utxo: u2, .. } if u2 == utxo) && h.results.get(j).map_or(false, |r| r.is_ok()));
                if !later {
                    visit(wit)
                }
            }
            Op::Cert(_, Some(w)) | Op::Wdr(_, _, Some(w)) | Op::Propose(_, Some(w)) => visit(w),
            // the mint builder keeps one script source per policy and the voting builder one per
            // voter: the source of the first successful call is the one that counts
            Op::Mint { wit, .. } => {
                if seen_mint.insert(wit.script) {
                    visit(wit)
                }
            }
            Op::Vote { wit: Some(w), voter, .. } => {
                if seen_voter.insert(format!("{:?}", voter)) {
                    visit(w)
                }
            }
            // a key declared on the inputs builder is a promise that it will sign
            Op::InReqSigner(k) => extra.push(key(*k).hash_bytes.to_vec()),
            Op::MintAndOut { script, .. } if !seen_mint.insert(*script) => {
                // the policy already has a script source from an earlier call: that one counts
                let _ = script;
            }
            Op::MintLegacy { script, .. } if !seen_mint.insert(*script) => {
                let _ = script;
            }
            Op::MintLegacy { script, .. } => visit(&Wit { script: *script, how: ScriptUse::Witness, datum: DatumUse::None, red: 0, mem: 0, steps: 0, signers: None }),
            Op::MintAndOut { script, .. } => visit(&Wit { script: *script, how: ScriptUse::Witness, datum: DatumUse::None, red: 0, mem: 0, steps: 0, signers: None }),
            _ => {}
        }
    }
    out.extend(extra);
    out.extend(h.told_keys.iter().filter(|(i, _)| *i < upto_op).map(|(_, k)| k.clone()));
    out
}

pub struct Signed {
    pub bytes: Vec<u8>,
    pub n_vkeys: usize,
    pub n_bootstrap: usize,
    pub required: Required,
    pub signing_keys: BTreeSet<Vec<u8>>,
    pub body_preserved: bool,
    pub signatures_verify: bool,
}

/// Sign a built transaction with exactly the distinct keys that must sign.
pub fn sign(sc: &Scenario, h: &History, b: &BuiltObs) -> Result<Signed, String> {
    let tx = b.tx.as_ref().ok_or("not a full transaction")?;
    let view = TxView::parse(&b.bytes)?;
    let cx = Ctx { w: &sc.world, k: &sc.knobs, undeclared_ref_scripts: Default::default() };
    let req = oracle::required(&view, &cx)?;
    let mut keys = req.keys.clone();
    let script_set: BTreeSet<Vec<u8>> = req.scripts.keys().cloned().collect();
    keys.extend(declared_keys(sc, h, b.op, &script_set));
    let body_hash = view.body_hash();
    let th = csl::TransactionHash::from_bytes(body_hash.to_vec()).unwrap();
    let mut ws = tx.witness_set();
    let mut ok_sigs = true;
    {
        // (the collection is handed over also when nobody has to sign with a key)
        let mut vk = csl::Vkeywitnesses::new();
        for (n, kh) in keys.iter().enumerate() {
            let km = match key_by_hash(kh) {
                Some(id) => key(id),
                None => key(1000 + n as u16),
            };
            let wtn = csl::make_vkey_witness(&th, &km.sk);
            // verify independently
            let sig = wtn.signature().to_bytes();
            let pk = wtn.vkey().public_key().as_bytes();
            let mut sig64 = [0u8; 64];
            sig64.copy_from_slice(&sig);
            let mut pk32 = [0u8; 32];
            pk32.copy_from_slice(&pk);
            if !cryptoxide::ed25519::verify(&body_hash, &pk32, &sig64) {
                ok_sigs = false;
            }
            vk.add(&wtn);
        }
        ws.set_vkeys(&vk);
    }
    {
        // like a signing helper that always hands both collections over, also when one is empty
        let mut bw = csl::BootstrapWitnesses::new();
        for a in &req.byron {
            let bm = byron_mat_by_addr(a, sc.world.magic).ok_or("byron owner unknown")?;
            bw.add(&csl::make_icarus_bootstrap_witness(&th, &bm.addr, &bm.xprv));
        }
        ws.set_bootstraps(&bw);
    }
    let signed = csl::Transaction::new(&tx.body(), &ws, tx.auxiliary_data());
    let bytes = signed.to_bytes();
    let body_preserved = match TxView::parse(&bytes) {
        Ok(v2) => v2.span(v2.body()) == view.span(view.body()),
        Err(_) => false,
    };
    Ok(Signed { bytes, n_vkeys: keys.len(), n_bootstrap: req.byron.len(), required: req, signing_keys: keys, body_preserved, signatures_verify: ok_sigs })
}

/// Run the history, then for each full transaction produce its signed form.
pub fn run_and_sign(sc: &Scenario) -> (History, Vec<Option<Result<Signed, String>>>) {
    let h = exec::run(sc);
    let mut v = vec![];
    for b in &h.built {
        if b.full {
            v.push(Some(sign(sc, &h, b)));
        } else {
            v.push(None);
        }
    }
    (h, v)
}

//! Ground truth of a run: keys, scripts, datums, UTxOs – all derived from small integers so
//! that a replay file stays readable – and their conversion to library values.
use cardano_serialization_lib as csl;
use cryptoxide::blake2b::Blake2b;
use cryptoxide::digest::Digest as _;
use serde::{Deserialize, Serialize};
use std::cell::RefCell;
use std::collections::BTreeMap;

pub fn blake2b(bytes_out: usize, data: &[u8]) -> Vec<u8> {
    let mut h = Blake2b::new(bytes_out);
    h.input(data);
    let mut out = vec![0u8; bytes_out];
    h.result(&mut out);
    out
}
pub fn blake2b256(data: &[u8]) -> [u8; 32] {
    let v = blake2b(32, data);
    let mut a = [0u8; 32];
    a.copy_from_slice(&v);
    a
}
pub fn blake2b224(data: &[u8]) -> [u8; 28] {
    let v = blake2b(28, data);
    let mut a = [0u8; 28];
    a.copy_from_slice(&v);
    a
}

fn derive32(tag: &str, i: u64) -> [u8; 32] {
    let mut d = tag.as_bytes().to_vec();
    d.extend_from_slice(&i.to_be_bytes());
    blake2b256(&d)
}

pub type KeyId = u16;
pub type ScriptId = u16;
pub type DatumId = u16;

// ------------------------------------------------------------------ keys

pub struct KeyMat {
    pub sk: csl::PrivateKey,
    pub pk: csl::PublicKey,
    pub hash: csl::Ed25519KeyHash,
    pub hash_bytes: [u8; 28],
}

pub struct ByronMat {
    pub xprv: csl::Bip32PrivateKey,
    pub addr: csl::ByronAddress,
    pub addr_bytes: Vec<u8>,
}

thread_local! {
    static KEYS: RefCell<BTreeMap<KeyId, std::rc::Rc<KeyMat>>> = RefCell::new(BTreeMap::new());
    static BYRON: RefCell<BTreeMap<(KeyId, u32), std::rc::Rc<ByronMat>>> = RefCell::new(BTreeMap::new());
    static BYRON_ROOT: RefCell<Option<Vec<u8>>> = RefCell::new(None);
}

pub fn key(i: KeyId) -> std::rc::Rc<KeyMat> {
    KEYS.with(|c| {
        let mut m = c.borrow_mut();
        if let Some(k) = m.get(&i) {
            return k.clone();
        }
        let sk = csl::PrivateKey::from_normal_bytes(&derive32("key", i as u64)).expect("key");
        let pk = sk.to_public();
        let hash = pk.hash();
        let mut hb = [0u8; 28];
        hb.copy_from_slice(&hash.to_bytes());
        let k = std::rc::Rc::new(KeyMat { sk, pk, hash, hash_bytes: hb });
        m.insert(i, k.clone());
        k
    })
}

fn crc32(data: &[u8]) -> u32 {
    let mut crc: u32 = 0xffff_ffff;
    for b in data {
        crc ^= *b as u32;
        for _ in 0..8 {
            crc = if crc & 1 != 0 { (crc >> 1) ^ 0xedb8_8320 } else { crc >> 1 };
        }
    }
    !crc
}

/// A Byron address of the Daedalus kind: it carries an (encrypted) derivation path of `path_len`
/// bytes in its attributes, which a bootstrap witness repeats. Written by the harness's own CBOR
/// writer; the address root is not verifiable by a decoder, so any 28 bytes do.
pub fn byron_with_path(i: KeyId, magic: u32, path_len: u8) -> std::rc::Rc<ByronMat> {
    BYRON.with(|c| {
        let kk = (i + 1000 * path_len as u16, magic);
        if let Some(k) = c.borrow().get(&kk) {
            return k.clone();
        }
        let base = byron(i, magic);
        let xprv = csl::Bip32PrivateKey::from_bytes(&base.xprv.as_bytes()).unwrap();
        let mut inner = vec![];
        crate::cbor::w_array(&mut inner, 3);
        crate::cbor::w_bytes(&mut inner, &blake2b224(&[i as u8, path_len, 0xda]));
        let mut path = vec![];
        crate::cbor::w_bytes(&mut path, &(0..path_len).map(|x| x.wrapping_mul(7).wrapping_add(i as u8)).collect::<Vec<u8>>());
        let mainnet = magic == 764824073;
        crate::cbor::w_map(&mut inner, if mainnet { 1 } else { 2 });
        crate::cbor::w_uint(&mut inner, 1);
        crate::cbor::w_bytes(&mut inner, &path);
        if !mainnet {
            let mut m = vec![];
            crate::cbor::w_uint(&mut m, magic as u64);
            crate::cbor::w_uint(&mut inner, 2);
            crate::cbor::w_bytes(&mut inner, &m);
        }
        crate::cbor::w_uint(&mut inner, 0);
        let mut outer = vec![];
        crate::cbor::w_array(&mut outer, 2);
        crate::cbor::w_tag(&mut outer, 24);
        crate::cbor::w_bytes(&mut outer, &inner);
        crate::cbor::w_uint(&mut outer, crc32(&inner) as u64);
        let addr = csl::ByronAddress::from_bytes(outer).expect("harness-written byron address");
        let addr_bytes = addr.to_bytes();
        let k = std::rc::Rc::new(ByronMat { xprv, addr, addr_bytes });
        c.borrow_mut().insert(kk, k.clone());
        k
    })
}

pub fn byron(i: KeyId, magic: u32) -> std::rc::Rc<ByronMat> {
    BYRON.with(|c| {
        let mut m = c.borrow_mut();
        if let Some(k) = m.get(&(i, magic)) {
            return k.clone();
        }
        let root = BYRON_ROOT.with(|r| {
            let mut r = r.borrow_mut();
            if r.is_none() {
                *r = Some(csl::Bip32PrivateKey::from_bip39_entropy(&derive32("byron-root", 0), &[]).as_bytes());
            }
            csl::Bip32PrivateKey::from_bytes(r.as_ref().unwrap()).unwrap()
        });
        let xprv = root.derive(0x8000_0000 | i as u32).derive(i as u32);
        let addr = csl::ByronAddress::icarus_from_key(&xprv.to_public(), magic);
        let addr_bytes = addr.to_bytes();
        let k = std::rc::Rc::new(ByronMat { xprv, addr, addr_bytes });
        m.insert((i, magic), k.clone());
        k
    })
}

// ------------------------------------------------------------------ scripts

#[derive(Serialize, Deserialize, Clone, Debug, PartialEq, Eq, Hash, PartialOrd, Ord)]
pub enum Ns {
    Pk(KeyId),
    All(Vec<Ns>),
    Any(Vec<Ns>),
    NofK(u32, Vec<Ns>),
    After(u64),
    Before(u64),
}

impl Ns {
    pub fn to_csl(&self) -> csl::NativeScript {
        fn list(v: &[Ns]) -> csl::NativeScripts {
            let mut l = csl::NativeScripts::new();
            for x in v {
                l.add(&x.to_csl());
            }
            l
        }
        match self {
            Ns::Pk(k) => csl::NativeScript::new_script_pubkey(&csl::ScriptPubkey::new(&key(*k).hash)),
            Ns::All(v) => csl::NativeScript::new_script_all(&csl::ScriptAll::new(&list(v))),
            Ns::Any(v) => csl::NativeScript::new_script_any(&csl::ScriptAny::new(&list(v))),
            Ns::NofK(n, v) => csl::NativeScript::new_script_n_of_k(&csl::ScriptNOfK::new(*n, &list(v))),
            Ns::After(s) => csl::NativeScript::new_timelock_start(&csl::TimelockStart::new_timelockstart(&csl::BigNum::from(*s))),
            Ns::Before(s) => csl::NativeScript::new_timelock_expiry(&csl::TimelockExpiry::new_timelockexpiry(&csl::BigNum::from(*s))),
        }
    }
    /// every key id occurring in the script (what a wallet that wants to be safe signs with)
    pub fn keys(&self, out: &mut Vec<KeyId>) {
        match self {
            Ns::Pk(k) => {
                if !out.contains(k) {
                    out.push(*k)
                }
            }
            Ns::All(v) | Ns::Any(v) | Ns::NofK(_, v) => v.iter().for_each(|x| x.keys(out)),
            _ => {}
        }
    }
    /// the script can be satisfied by its time conditions alone (no signature needed)
    pub fn keyless(&self) -> bool {
        match self {
            Ns::Pk(_) => false,
            Ns::All(v) => v.iter().all(|x| x.keyless()),
            Ns::Any(v) => v.iter().any(|x| x.keyless()),
            Ns::NofK(n, v) => v.iter().filter(|x| x.keyless()).count() as u32 >= *n,
            Ns::After(_) | Ns::Before(_) => true,
        }
    }
}

#[derive(Serialize, Deserialize, Clone, Debug, PartialEq, Eq, Hash, PartialOrd, Ord)]
pub enum ScriptSpec {
    Native(Ns),
    /// language 1..3, byte length, fill seed
    Plutus { lang: u8, len: u32, fill: u8 },
}

pub enum ScriptVal {
    Native(csl::NativeScript),
    Plutus(csl::PlutusScript),
}

pub fn plutus_bytes(len: u32, fill: u8) -> Vec<u8> {
    (0..len).map(|i| (i as u8).wrapping_mul(31).wrapping_add(fill)).collect()
}

pub fn language(lang: u8) -> csl::Language {
    match lang {
        1 => csl::Language::new_plutus_v1(),
        2 => csl::Language::new_plutus_v2(),
        _ => csl::Language::new_plutus_v3(),
    }
}

impl ScriptSpec {
    pub fn to_val(&self) -> ScriptVal {
        match self {
            ScriptSpec::Native(ns) => ScriptVal::Native(ns.to_csl()),
            ScriptSpec::Plutus { lang, len, fill } => ScriptVal::Plutus(csl::PlutusScript::new_with_version(plutus_bytes(*len, *fill), &language(*lang))),
        }
    }
    pub fn is_plutus(&self) -> bool {
        matches!(self, ScriptSpec::Plutus { .. })
    }
    pub fn lang(&self) -> Option<u8> {
        match self {
            ScriptSpec::Plutus { lang, .. } => Some(*lang),
            _ => None,
        }
    }
}

impl ScriptVal {
    pub fn hash(&self) -> csl::ScriptHash {
        match self {
            ScriptVal::Native(n) => n.hash(),
            ScriptVal::Plutus(p) => p.hash(),
        }
    }
    pub fn script_ref(&self) -> csl::ScriptRef {
        match self {
            ScriptVal::Native(n) => csl::ScriptRef::new_native_script(n),
            ScriptVal::Plutus(p) => csl::ScriptRef::new_plutus_script(p),
        }
    }
}

// ------------------------------------------------------------------ datums

#[derive(Serialize, Deserialize, Clone, Debug, PartialEq, Eq, Hash, PartialOrd, Ord)]
pub enum Pd {
    Int(i64),
    /// big integer given as decimal string
    Big(String),
    Bytes(u16, u8),
    List(Vec<Pd>),
    Constr(u64, Vec<Pd>),
    Map(Vec<(Pd, Pd)>),
    /// the same value in the encoding of a foreign peer (seeded variant); enters the library through from_bytes
    Alt(Box<Pd>, u8),
}

impl Pd {
    pub fn to_csl(&self) -> csl::PlutusData {
        match self {
            Pd::Int(i) => csl::PlutusData::new_integer(&csl::BigInt::from_str(&i.to_string()).unwrap()),
            Pd::Big(s) => csl::PlutusData::new_integer(&csl::BigInt::from_str(s).unwrap()),
            Pd::Bytes(n, f) => csl::PlutusData::new_bytes((0..*n).map(|i| (i as u8).wrapping_add(*f)).collect()),
            Pd::List(v) => {
                let mut l = csl::PlutusList::new();
                for x in v {
                    l.add(&x.to_csl());
                }
                csl::PlutusData::new_list(&l)
            }
            Pd::Constr(alt, v) => {
                let mut l = csl::PlutusList::new();
                for x in v {
                    l.add(&x.to_csl());
                }
                csl::PlutusData::new_constr_plutus_data(&csl::ConstrPlutusData::new(&csl::BigNum::from(*alt), &l))
            }
            Pd::Alt(inner, variant) => {
                let base = inner.to_csl();
                let bytes = base.to_bytes();
                if let Ok(n) = crate::cbor::parse(&bytes) {
                    for attempt in 0..6u64 {
                        let mut r = crate::prng::Rng::new(*variant as u64 * 31 + attempt);
                        let mut f = crate::cbor::Foreign::new(&mut r, 250, 400, 300, 0);
                        let mut out = vec![];
                        f.emit(&n, &mut out);
                        if out != bytes {
                            if let Ok(d) = csl::PlutusData::from_bytes(out) {
                                return d;
                            }
                        }
                    }
                }
                base
            }
            Pd::Map(v) => {
                let mut m = csl::PlutusMap::new();
                for (k, x) in v {
                    let mut vals = csl::PlutusMapValues::new();
                    vals.add(&x.to_csl());
                    m.insert(&k.to_csl(), &vals);
                }
                csl::PlutusData::new_map(&m)
            }
        }
    }
}

// ------------------------------------------------------------------ addresses

#[derive(Serialize, Deserialize, Clone, Debug, PartialEq, Eq, Hash, PartialOrd, Ord)]
pub enum Cred {
    Key(KeyId),
    Script(ScriptId),
}

#[derive(Serialize, Deserialize, Clone, Debug, PartialEq, Eq, Hash, PartialOrd, Ord)]
pub enum AddrSpec {
    Base(Cred, Cred),
    Ent(Cred),
    Ptr(Cred, u64, u64, u64),
    Reward(Cred),
    Byron(KeyId),
    /// Daedalus-kind Byron address with a derivation-path attribute of the given length
    ByronPath(KeyId, u8),
}

impl AddrSpec {
    pub fn pay_cred(&self) -> Option<&Cred> {
        match self {
            AddrSpec::Base(p, _) | AddrSpec::Ent(p) | AddrSpec::Ptr(p, ..) | AddrSpec::Reward(p) => Some(p),
            AddrSpec::Byron(_) | AddrSpec::ByronPath(..) => None,
        }
    }
}

// ------------------------------------------------------------------ UTxOs

#[derive(Serialize, Deserialize, Clone, Debug, PartialEq, Eq, Hash)]
pub enum DatumAt {
    Hash(DatumId),
    Inline(DatumId),
}

#[derive(Serialize, Deserialize, Clone, Debug, PartialEq, Eq, Hash)]
pub struct AssetQ {
    /// policy: index into `World::scripts` when < scripts.len(), otherwise a derived 28-byte id
    pub p: u16,
    /// asset name bytes (hex in JSON would be nicer; kept as bytes for simplicity)
    pub n: Vec<u8>,
    pub q: u64,
}

#[derive(Serialize, Deserialize, Clone, Debug, PartialEq, Eq, Hash)]
pub struct Utxo {
    pub tx: u32,
    pub ix: u32,
    pub addr: AddrSpec,
    pub coin: u64,
    #[serde(default, skip_serializing_if = "Vec::is_empty")]
    pub assets: Vec<AssetQ>,
    #[serde(default, skip_serializing_if = "Option::is_none")]
    pub datum: Option<DatumAt>,
    #[serde(default, skip_serializing_if = "Option::is_none")]
    pub script_ref: Option<ScriptId>,
    /// a pure-ADA value that carries an empty asset map (`[coin, {}]`, what value arithmetic or a
    /// JSON wallet export leaves behind) instead of no map at all; on an asset-carrying value: an
    /// additional policy entry that holds no asset
    #[serde(default, skip_serializing_if = "is_false")]
    pub empty_ma: bool,
}
fn is_false(b: &bool) -> bool {
    !*b
}

#[derive(Serialize, Deserialize, Clone, Debug, Default)]
pub struct World {
    pub network: u8,
    pub magic: u32,
    #[serde(default)]
    pub scripts: Vec<ScriptSpec>,
    #[serde(default)]
    pub datums: Vec<Pd>,
    #[serde(default)]
    pub utxos: Vec<Utxo>,
    /// native scripts reach the library through `NativeScript::from_bytes`, from bytes in which every
    /// nested script list carries the set tag 258 (the decoder accepts and ignores it): equal scripts, same hashes
    #[serde(default)]
    pub decoded_scripts: bool,
}

/// a native script re-emitted with tag 258 in front of every nested script list
pub fn tag_nested_script_lists(b: &[u8]) -> Option<Vec<u8>> {
    fn go(n: &crate::cbor::Node, whole: &[u8], out: &mut Vec<u8>) -> Option<()> {
        let a = n.as_array()?;
        let t = a.get(0)?.as_u64()?;
        let list_at = match t {
            1 | 2 => Some(1),
            3 => Some(2),
            _ => None,
        };
        match list_at {
            None => out.extend_from_slice(n.span(whole)),
            Some(ix) => {
                crate::cbor::w_array(out, a.len() as u64);
                for (i, it) in a.iter().enumerate() {
                    if i == ix {
                        let items = it.as_array()?;
                        crate::cbor::w_tag(out, 258);
                        crate::cbor::w_array(out, items.len() as u64);
                        for s in items {
                            go(s, whole, out)?;
                        }
                    } else {
                        out.extend_from_slice(it.span(whole));
                    }
                }
            }
        }
        Some(())
    }
    let n = crate::cbor::parse(b).ok()?;
    let mut out = vec![];
    go(&n, b, &mut out)?;
    Some(out)
}

pub fn tx_hash_bytes(tx: u32) -> [u8; 32] {
    derive32("tx", tx as u64)
}

pub fn raw_policy(p: u16) -> [u8; 28] {
    let mut d = b"policy".to_vec();
    d.extend_from_slice(&p.to_be_bytes());
    blake2b224(&d)
}

impl World {
    pub fn script_val(&self, id: ScriptId) -> ScriptVal {
        let v = self.scripts[id as usize].to_val();
        if self.decoded_scripts {
            if let ScriptVal::Native(n) = &v {
                if let Some(n2) = tag_nested_script_lists(&n.to_bytes()).and_then(|b| csl::NativeScript::from_bytes(b).ok()) {
                    return ScriptVal::Native(n2);
                }
            }
        }
        v
    }
    pub fn script_hash(&self, id: ScriptId) -> csl::ScriptHash {
        self.script_val(id).hash()
    }
    pub fn policy_bytes(&self, p: u16) -> [u8; 28] {
        if (p as usize) < self.scripts.len() {
            let mut a = [0u8; 28];
            a.copy_from_slice(&self.script_hash(p).to_bytes());
            a
        } else {
            raw_policy(p)
        }
    }
    pub fn policy(&self, p: u16) -> csl::ScriptHash {
        csl::ScriptHash::from_bytes(self.policy_bytes(p).to_vec()).unwrap()
    }
    pub fn cred(&self, c: &Cred) -> csl::Credential {
        match c {
            Cred::Key(k) => csl::Credential::from_keyhash(&key(*k).hash),
            Cred::Script(s) => csl::Credential::from_scripthash(&self.script_hash(*s)),
        }
    }
    pub fn address(&self, a: &AddrSpec) -> csl::Address {
        match a {
            AddrSpec::Base(p, s) => csl::BaseAddress::new(self.network, &self.cred(p), &self.cred(s)).to_address(),
            AddrSpec::Ent(p) => csl::EnterpriseAddress::new(self.network, &self.cred(p)).to_address(),
            AddrSpec::Ptr(p, a, b, c) => csl::PointerAddress::new(
                self.network,
                &self.cred(p),
                &csl::Pointer::new_pointer(&csl::BigNum::from(*a), &csl::BigNum::from(*b), &csl::BigNum::from(*c)),
            )
            .to_address(),
            AddrSpec::Reward(p) => csl::RewardAddress::new(self.network, &self.cred(p)).to_address(),
            AddrSpec::Byron(k) => byron(*k, self.magic).addr.to_address(),
            AddrSpec::ByronPath(k, l) => byron_with_path(*k, self.magic, *l).addr.to_address(),
        }
    }
    pub fn reward_address(&self, c: &Cred) -> csl::RewardAddress {
        csl::RewardAddress::new(self.network, &self.cred(c))
    }
    pub fn datum(&self, id: DatumId) -> csl::PlutusData {
        self.datums[id as usize].to_csl()
    }
    pub fn multiasset(&self, assets: &[AssetQ]) -> Option<csl::MultiAsset> {
        if assets.is_empty() {
            return None;
        }
        let mut ma = csl::MultiAsset::new();
        for a in assets {
            let name = csl::AssetName::new(a.n.clone()).unwrap();
            if a.q % 3 == 0 {
                // a quantity that was assigned before and is corrected now: the last assignment counts
                ma.set_asset(&self.policy(a.p), &name, &csl::BigNum::from(a.q + 1));
            }
            ma.set_asset(&self.policy(a.p), &name, &csl::BigNum::from(a.q));
        }
        Some(ma)
    }
    pub fn value(&self, coin: u64, assets: &[AssetQ]) -> csl::Value {
        let mut v = csl::Value::new(&csl::BigNum::from(coin));
        if let Some(ma) = self.multiasset(assets) {
            v.set_multiasset(&ma);
        }
        v
    }
    pub fn input_of(&self, u: &Utxo) -> csl::TransactionInput {
        csl::TransactionInput::new(&csl::TransactionHash::from_bytes(tx_hash_bytes(u.tx).to_vec()).unwrap(), u.ix)
    }
    pub fn output_of(&self, u: &Utxo) -> csl::TransactionOutput {
        let mut val = self.value(u.coin, &u.assets);
        if u.empty_ma {
            if u.assets.is_empty() {
                val.set_multiasset(&csl::MultiAsset::new());
            } else if let Some(mut ma) = val.multiasset() {
                // a policy entry without assets next to real ones (legal before Conway; what a
                // subtraction that does not prune, or a decoder, leaves behind)
                ma.insert(&self.policy(1999), &csl::Assets::new());
                val.set_multiasset(&ma);
            }
        }
        let mut o = csl::TransactionOutput::new(&self.address(&u.addr), &val);
        match &u.datum {
            Some(DatumAt::Hash(d)) => o.set_data_hash(&csl::hash_plutus_data(&self.datum(*d))),
            Some(DatumAt::Inline(d)) => o.set_plutus_data(&self.datum(*d)),
            None => {}
        }
        if let Some(s) = u.script_ref {
            o.set_script_ref(&self.script_val(s).script_ref());
        }
        o
    }
    pub fn utxo(&self, i: usize) -> csl::TransactionUnspentOutput {
        let u = &self.utxos[i];
        csl::TransactionUnspentOutput::new(&self.input_of(u), &self.output_of(u))
    }
    /// outpoint key for ground-truth lookups: (tx hash bytes, index)
    pub fn outpoint(&self, i: usize) -> (Vec<u8>, u64) {
        let u = &self.utxos[i];
        (tx_hash_bytes(u.tx).to_vec(), u.ix as u64)
    }
    pub fn find_outpoint(&self, h: &[u8], ix: u64) -> Option<usize> {
        self.utxos.iter().position(|u| u.ix as u64 == ix && tx_hash_bytes(u.tx)[..] == *h)
    }
}

// ------------------------------------------------------------------ ground-truth value arithmetic

/// Multi-asset value over arbitrary-range integers: lovelace + (policy bytes, name bytes) -> quantity
#[derive(Clone, Debug, Default, PartialEq, Eq)]
pub struct GVal {
    pub coin: i128,
    pub assets: BTreeMap<(Vec<u8>, Vec<u8>), i128>,
}

impl GVal {
    pub fn coin(c: i128) -> Self {
        GVal { coin: c, assets: BTreeMap::new() }
    }
    pub fn add(&mut self, o: &GVal) {
        self.coin += o.coin;
        for (k, v) in &o.assets {
            *self.assets.entry(k.clone()).or_insert(0) += *v;
        }
    }
    pub fn sub(&mut self, o: &GVal) {
        self.coin -= o.coin;
        for (k, v) in &o.assets {
            *self.assets.entry(k.clone()).or_insert(0) -= *v;
        }
    }
    pub fn normalize(&mut self) {
        self.assets.retain(|_, v| *v != 0);
    }
    pub fn is_zero(&self) -> bool {
        self.coin == 0 && self.assets.values().all(|v| *v == 0)
    }
    pub fn of_utxo(w: &World, u: &Utxo) -> GVal {
        let mut g = GVal::coin(u.coin as i128);
        for a in &u.assets {
            *g.assets.entry((w.policy_bytes(a.p).to_vec(), a.n.clone())).or_insert(0) += a.q as i128;
        }
        g
    }
    pub fn of_csl(v: &csl::Value) -> GVal {
        let mut g = GVal::coin(u64::from(v.coin()) as i128);
        if let Some(ma) = v.multiasset() {
            let pids = ma.keys();
            for i in 0..pids.len() {
                let pid = pids.get(i);
                let assets = ma.get(&pid).unwrap();
                let names = assets.keys();
                for j in 0..names.len() {
                    let n = names.get(j);
                    let q = assets.get(&n).unwrap();
                    *g.assets.entry((pid.to_bytes(), n.name())).or_insert(0) += u64::from(q) as i128;
                }
            }
        }
        g
    }
    pub fn describe(&self) -> String {
        let mut s = format!("{}", self.coin);
        for ((p, n), q) in &self.assets {
            s.push_str(&format!(" +{}x{}.{}", q, hex::encode(&p[..4]), hex::encode(n)));
        }
        s
    }
}

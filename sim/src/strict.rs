//! Strict schema-directed validator for Conway-era transactions (C03).
//! Written from the CDDL; shares no code with the library or cbor_event.
use crate::cbor::{Kind, Node};

pub struct V<'a> {
    pub bytes: &'a [u8],
    pub errs: Vec<(String, String)>,
    /// builder-computed outputs: no zero quantity, no empty policy map
    pub builder_outputs: bool,
}

type R = Result<(), ()>;

impl<'a> V<'a> {
    pub fn new(bytes: &'a [u8]) -> Self {
        V { bytes, errs: vec![], builder_outputs: true }
    }
    fn err(&mut self, class: &str, path: &str, what: &str) {
        if self.errs.len() < 8 {
            self.errs.push((class.to_string(), format!("{}: {}", path, what)));
        }
    }
    fn bad<T>(&mut self, class: &str, path: &str, what: &str) -> Result<T, ()> {
        self.err(class, path, what);
        Err(())
    }

    /// shortest definite heads everywhere below `n`, except where `plutus` says otherwise
    fn minimal(&mut self, n: &Node, path: &str) {
        if !n.minimal {
            self.err("non_minimal_head", path, &format!("integer/length not in shortest form at byte {}", n.start));
        }
    }
    fn definite(&mut self, n: &Node, path: &str) {
        if n.indef {
            self.err("indefinite_length", path, &format!("indefinite-length item at byte {}", n.start));
        }
    }

    fn uint(&mut self, n: &Node, path: &str) -> Result<u64, ()> {
        self.minimal(n, path);
        match n.as_u64() {
            Some(v) => Ok(v),
            None => self.bad("wrong_type", path, "expected uint"),
        }
    }
    fn int(&mut self, n: &Node, path: &str) -> Result<i128, ()> {
        self.minimal(n, path);
        match n.as_i128() {
            Some(v) => Ok(v),
            None => self.bad("wrong_type", path, "expected int"),
        }
    }
    fn bytes_n(&mut self, n: &Node, len: usize, path: &str) -> R {
        self.minimal(n, path);
        self.definite(n, path);
        match n.as_bytes() {
            Some(b) if b.len() == len => Ok(()),
            Some(b) => self.bad("wrong_size", path, &format!("byte string of {} bytes, expected {}", b.len(), len)),
            None => self.bad("wrong_type", path, "expected bytes"),
        }
    }
    fn bytes_max(&mut self, n: &Node, max: usize, path: &str) -> R {
        self.minimal(n, path);
        self.definite(n, path);
        match n.as_bytes() {
            Some(b) if b.len() <= max => Ok(()),
            Some(b) => self.bad("wrong_size", path, &format!("byte string of {} bytes, max {}", b.len(), max)),
            None => self.bad("wrong_type", path, "expected bytes"),
        }
    }
    fn text_max(&mut self, n: &Node, max: usize, path: &str) -> R {
        self.minimal(n, path);
        self.definite(n, path);
        match n.as_text() {
            Some(b) if b.len() <= max => Ok(()),
            Some(b) => self.bad("wrong_size", path, &format!("text of {} bytes, max {}", b.len(), max)),
            None => self.bad("wrong_type", path, "expected text"),
        }
    }
    fn array<'n>(&mut self, n: &'n Node, path: &str) -> Result<&'n Vec<Node>, ()> {
        self.minimal(n, path);
        self.definite(n, path);
        match n.as_array() {
            Some(a) => Ok(a),
            None => self.bad("wrong_type", path, "expected array"),
        }
    }
    fn array_n<'n>(&mut self, n: &'n Node, len: usize, path: &str) -> Result<&'n Vec<Node>, ()> {
        let a = self.array(n, path)?;
        if a.len() != len {
            return self.bad("wrong_arity", path, &format!("array of {} items, expected {}", a.len(), len));
        }
        Ok(a)
    }
    fn map<'n>(&mut self, n: &'n Node, path: &str) -> Result<&'n Vec<(Node, Node)>, ()> {
        self.minimal(n, path);
        self.definite(n, path);
        match n.as_map() {
            Some(m) => {
                // no duplicate keys (by bytes)
                for i in 0..m.len() {
                    for j in i + 1..m.len() {
                        if self.bytes[m[i].0.start..m[i].0.end] == self.bytes[m[j].0.start..m[j].0.end] {
                            self.err("duplicate_map_key", path, "map key occurs twice");
                        }
                    }
                }
                Ok(m)
            }
            None => self.bad("wrong_type", path, "expected map"),
        }
    }
    /// set<a>: tag 258 required, definite array, no duplicates
    fn set<'n>(&mut self, n: &'n Node, path: &str) -> Result<&'n Vec<Node>, ()> {
        match &n.kind {
            Kind::Tag(258, inner) => {
                self.minimal(n, path);
                let a = self.array(inner, path)?;
                for i in 0..a.len() {
                    for j in i + 1..a.len() {
                        if self.bytes[a[i].start..a[i].end] == self.bytes[a[j].start..a[j].end] {
                            self.err("duplicate_set_element", path, "set element occurs twice");
                        }
                    }
                }
                Ok(a)
            }
            Kind::Array(_) => self.bad("set_without_tag_258", path, "set-typed field written without tag 258"),
            _ => self.bad("wrong_type", path, "expected set"),
        }
    }
    fn nonempty_set<'n>(&mut self, n: &'n Node, path: &str) -> Result<&'n Vec<Node>, ()> {
        let a = self.set(n, path)?;
        if a.is_empty() {
            self.err("empty_nonempty_set", path, "nonempty_set written empty");
        }
        Ok(a)
    }

    fn txin(&mut self, n: &Node, path: &str) -> R {
        let a = self.array_n(n, 2, path)?;
        self.bytes_n(&a[0], 32, path)?;
        let ix = self.uint(&a[1], path)?;
        if ix > 65535 {
            self.err("out_of_range", path, "transaction index above 65535");
        }
        Ok(())
    }
    fn credential(&mut self, n: &Node, path: &str) -> R {
        let a = self.array_n(n, 2, path)?;
        let t = self.uint(&a[0], path)?;
        if t > 1 {
            return self.bad("bad_variant", path, "credential tag");
        }
        self.bytes_n(&a[1], 28, path)
    }
    fn reward_account(&mut self, n: &Node, path: &str) -> R {
        self.bytes_n(n, 29, path)?;
        let b = n.as_bytes().unwrap();
        if b[0] >> 4 != 0b1110 && b[0] >> 4 != 0b1111 {
            self.err("bad_variant", path, "reward account header");
        }
        Ok(())
    }
    fn address(&mut self, n: &Node, path: &str) -> R {
        self.minimal(n, path);
        self.definite(n, path);
        let b = match n.as_bytes() {
            Some(b) => b,
            None => return self.bad("wrong_type", path, "address not bytes"),
        };
        if b.is_empty() {
            return self.bad("wrong_size", path, "empty address");
        }
        let ok = match b[0] >> 4 {
            0..=3 => b.len() == 57,
            4 | 5 => b.len() > 29,
            6 | 7 => b.len() == 29,
            8 => true,
            14 | 15 => b.len() == 29,
            _ => false,
        };
        if !ok {
            self.err("wrong_size", path, &format!("address header {:#x} with {} bytes", b[0], b.len()));
        }
        Ok(())
    }
    fn unit_interval(&mut self, n: &Node, path: &str) -> R {
        match &n.kind {
            Kind::Tag(30, inner) => {
                self.minimal(n, path);
                let a = self.array_n(inner, 2, path)?;
                self.uint(&a[0], path)?;
                let d = self.uint(&a[1], path)?;
                if d == 0 {
                    self.err("out_of_range", path, "zero denominator");
                }
                Ok(())
            }
            _ => self.bad("wrong_type", path, "expected #6.30([uint, uint])"),
        }
    }
    fn anchor(&mut self, n: &Node, path: &str) -> R {
        let a = self.array_n(n, 2, path)?;
        self.text_max(&a[0], 128, path)?;
        self.bytes_n(&a[1], 32, path)
    }
    fn nullable(&mut self, n: &Node, f: fn(&mut Self, &Node, &str) -> R, path: &str) -> R {
        if n.is_null() {
            Ok(())
        } else {
            f(self, n, path)
        }
    }

    fn canonical_keys(&mut self, keys: Vec<&[u8]>, path: &str, what: &str) {
        for w in keys.windows(2) {
            if (w[0].len(), w[0]) >= (w[1].len(), w[1]) {
                self.err("map_keys_not_canonical", path, what);
                return;
            }
        }
    }

    fn multiasset(&mut self, n: &Node, mint: bool, path: &str) -> R {
        let m = self.map(n, path)?;
        let mut pkeys = vec![];
        for (p, assets) in m {
            self.bytes_n(p, 28, path)?;
            pkeys.push(p.as_bytes().unwrap());
            let am = self.map(assets, path)?;
            if am.is_empty() && (mint || self.builder_outputs) {
                self.err("empty_policy_bundle", path, "policy with an empty asset map");
            }
            let mut nkeys = vec![];
            for (name, q) in am {
                self.bytes_max(name, 32, path)?;
                nkeys.push(name.as_bytes().unwrap());
                if mint {
                    let v = self.int(q, path)?;
                    if v == 0 {
                        self.err("zero_quantity", path, "zero mint quantity");
                    }
                    if v > i64::MAX as i128 || v < i64::MIN as i128 {
                        self.err("out_of_range", path, "mint quantity outside int64");
                    }
                } else {
                    let v = self.uint(q, path)?;
                    if v == 0 && self.builder_outputs {
                        self.err("zero_quantity", path, "zero asset quantity in an output");
                    }
                }
            }
            self.canonical_keys(nkeys, path, "asset names not in canonical order");
        }
        self.canonical_keys(pkeys, path, "policy ids not in canonical order");
        Ok(())
    }
    fn value(&mut self, n: &Node, path: &str) -> R {
        match &n.kind {
            Kind::UInt(_) => self.uint(n, path).map(|_| ()),
            Kind::Array(_) => {
                let a = self.array_n(n, 2, path)?;
                self.uint(&a[0], path)?;
                self.multiasset(&a[1], false, path)
            }
            _ => self.bad("wrong_type", path, "value"),
        }
    }

    fn plutus_data(&mut self, n: &Node, path: &str, depth: usize) -> R {
        if depth > 200 {
            return Ok(());
        }
        match &n.kind {
            Kind::UInt(_) | Kind::NInt(_) => {
                self.minimal(n, path);
                Ok(())
            }
            Kind::Bytes(b) => {
                self.minimal(n, path);
                if n.indef {
                    if n.chunks.iter().any(|c| *c > 64) {
                        self.err("wrong_size", path, "bounded_bytes chunk over 64 bytes");
                    }
                    if b.len() <= 64 {
                        self.err("indefinite_length", path, "byte string of at most 64 bytes written in chunked form");
                    }
                } else if b.len() > 64 {
                    self.err("wrong_size", path, "definite byte string over 64 bytes in plutus data");
                }
                Ok(())
            }
            Kind::Array(a) => {
                // non-empty lists may be indefinite; the empty list is 0x80
                self.minimal(n, path);
                if a.is_empty() && n.indef {
                    self.err("indefinite_length", path, "empty plutus list written with indefinite length");
                }
                for x in a {
                    self.plutus_data(x, path, depth + 1)?;
                }
                Ok(())
            }
            Kind::Map(m) => {
                self.minimal(n, path);
                self.definite(n, path);
                for (k, v) in m {
                    self.plutus_data(k, path, depth + 1)?;
                    self.plutus_data(v, path, depth + 1)?;
                }
                Ok(())
            }
            Kind::Tag(t, inner) => {
                self.minimal(n, path);
                match *t {
                    2 | 3 => {
                        // big integers: bounded bytes
                        match &inner.kind {
                            Kind::Bytes(_) => self.plutus_data(inner, path, depth + 1),
                            _ => self.bad("wrong_type", path, "bignum content"),
                        }
                    }
                    121..=127 | 1280..=1400 => match &inner.kind {
                        Kind::Array(_) => self.plutus_data(inner, path, depth + 1),
                        _ => self.bad("wrong_type", path, "constr fields"),
                    },
                    102 => {
                        let a = match inner.as_array() {
                            Some(a) if a.len() == 2 => a,
                            _ => return self.bad("wrong_arity", path, "#6.102 content"),
                        };
                        self.minimal(inner, path);
                        self.definite(inner, path);
                        self.uint(&a[0], path)?;
                        match &a[1].kind {
                            Kind::Array(_) => self.plutus_data(&a[1], path, depth + 1),
                            _ => self.bad("wrong_type", path, "constr fields"),
                        }
                    }
                    _ => self.bad("bad_tag", path, &format!("tag {} in plutus data", t)),
                }
            }
            _ => self.bad("wrong_type", path, "plutus data"),
        }
    }

    fn native_script(&mut self, n: &Node, path: &str, depth: usize) -> R {
        if depth > 200 {
            return Ok(());
        }
        let a = self.array(n, path)?;
        if a.is_empty() {
            return self.bad("wrong_arity", path, "empty native script");
        }
        match self.uint(&a[0], path)? {
            0 => {
                if a.len() != 2 {
                    return self.bad("wrong_arity", path, "script_pubkey");
                }
                self.bytes_n(&a[1], 28, path)
            }
            1 | 2 => {
                if a.len() != 2 {
                    return self.bad("wrong_arity", path, "script_all/any");
                }
                for s in self.array(&a[1], path)?.clone().iter() {
                    self.native_script(s, path, depth + 1)?;
                }
                Ok(())
            }
            3 => {
                if a.len() != 3 {
                    return self.bad("wrong_arity", path, "script_n_of_k");
                }
                self.uint(&a[1], path)?;
                for s in self.array(&a[2], path)?.clone().iter() {
                    self.native_script(s, path, depth + 1)?;
                }
                Ok(())
            }
            4 | 5 => {
                if a.len() != 2 {
                    return self.bad("wrong_arity", path, "timelock");
                }
                self.uint(&a[1], path).map(|_| ())
            }
            _ => self.bad("bad_variant", path, "native script tag"),
        }
    }

    /// content of #6.24(bytes .cbor x): parse the bytes and validate with `f`
    fn embedded(&mut self, n: &Node, path: &str, f: &dyn Fn(&mut V, &Node, &str) -> R) -> R {
        match &n.kind {
            Kind::Tag(24, inner) => {
                self.minimal(n, path);
                self.minimal(inner, path);
                self.definite(inner, path);
                let b = match inner.as_bytes() {
                    Some(b) => b.to_vec(),
                    None => return self.bad("wrong_type", path, "#6.24 content not bytes"),
                };
                match crate::cbor::parse(&b) {
                    Ok(en) => {
                        let mut sub = V { bytes: &b, errs: vec![], builder_outputs: self.builder_outputs };
                        let _ = f(&mut sub, &en, path);
                        for e in sub.errs {
                            self.errs.push(e);
                        }
                        Ok(())
                    }
                    Err(e) => self.bad("embedded_cbor_unreadable", path, &e.0),
                }
            }
            _ => self.bad("wrong_type", path, "expected #6.24(bytes)"),
        }
    }

    fn script_ref_content(v: &mut V, n: &Node, path: &str) -> R {
        let a = v.array_n(n, 2, path)?;
        match v.uint(&a[0], path)? {
            0 => v.native_script(&a[1], path, 0),
            1 | 2 | 3 => {
                v.minimal(&a[1], path);
                v.definite(&a[1], path);
                match a[1].as_bytes() {
                    Some(_) => Ok(()),
                    None => v.bad("wrong_type", path, "plutus script bytes"),
                }
            }
            _ => v.bad("bad_variant", path, "script tag"),
        }
    }

    pub fn output(&mut self, n: &Node, path: &str) -> R {
        match &n.kind {
            Kind::Array(_) => {
                let a = self.array(n, path)?;
                if a.len() != 2 && a.len() != 3 {
                    return self.bad("wrong_arity", path, "legacy output");
                }
                self.address(&a[0], path)?;
                self.value(&a[1], path)?;
                if a.len() == 3 {
                    self.bytes_n(&a[2], 32, path)?;
                }
                Ok(())
            }
            Kind::Map(_) => {
                let m = self.map(n, path)?;
                let mut have0 = false;
                let mut have1 = false;
                for (k, v) in m {
                    match self.uint(k, path)? {
                        0 => {
                            have0 = true;
                            self.address(v, path)?
                        }
                        1 => {
                            have1 = true;
                            self.value(v, path)?
                        }
                        2 => {
                            let a = self.array_n(v, 2, path)?;
                            match self.uint(&a[0], path)? {
                                0 => self.bytes_n(&a[1], 32, path)?,
                                1 => self.embedded(&a[1], path, &|v: &mut V, n: &Node, p: &str| v.plutus_data(n, p, 0))?,
                                _ => return self.bad("bad_variant", path, "datum option"),
                            }
                        }
                        3 => self.embedded(v, path, &|v: &mut V, n: &Node, p: &str| V::script_ref_content(v, n, p))?,
                        k => return self.bad("unknown_map_key", path, &format!("output key {}", k)),
                    }
                }
                if !have0 || !have1 {
                    self.err("missing_field", path, "output without address or value");
                }
                Ok(())
            }
            _ => self.bad("wrong_type", path, "output"),
        }
    }

    fn drep(&mut self, n: &Node, path: &str) -> R {
        let a = self.array(n, path)?;
        if a.is_empty() {
            return self.bad("wrong_arity", path, "drep");
        }
        match self.uint(&a[0], path)? {
            0 | 1 => {
                if a.len() != 2 {
                    return self.bad("wrong_arity", path, "drep");
                }
                self.bytes_n(&a[1], 28, path)
            }
            2 | 3 => {
                if a.len() != 1 {
                    return self.bad("wrong_arity", path, "drep");
                }
                Ok(())
            }
            _ => self.bad("bad_variant", path, "drep tag"),
        }
    }

    fn relay(&mut self, n: &Node, path: &str) -> R {
        let a = self.array(n, path)?;
        if a.is_empty() {
            return self.bad("wrong_arity", path, "relay");
        }
        match self.uint(&a[0], path)? {
            0 => {
                if a.len() != 4 {
                    return self.bad("wrong_arity", path, "single_host_addr");
                }
                if !a[1].is_null() {
                    let p = self.uint(&a[1], path)?;
                    if p > 65535 {
                        self.err("out_of_range", path, "port");
                    }
                }
                if !a[2].is_null() {
                    self.bytes_n(&a[2], 4, path)?;
                }
                if !a[3].is_null() {
                    self.bytes_n(&a[3], 16, path)?;
                }
                Ok(())
            }
            1 => {
                if a.len() != 3 {
                    return self.bad("wrong_arity", path, "single_host_name");
                }
                if !a[1].is_null() {
                    self.uint(&a[1], path)?;
                }
                self.text_max(&a[2], 128, path)
            }
            2 => {
                if a.len() != 2 {
                    return self.bad("wrong_arity", path, "multi_host_name");
                }
                self.text_max(&a[1], 128, path)
            }
            _ => self.bad("bad_variant", path, "relay tag"),
        }
    }

    fn cert(&mut self, n: &Node, path: &str) -> R {
        let a = self.array(n, path)?;
        if a.is_empty() {
            return self.bad("wrong_arity", path, "certificate");
        }
        let t = self.uint(&a[0], path)?;
        let arity = |v: &mut V, want: usize| -> R {
            if a.len() != want {
                v.bad("wrong_arity", path, &format!("certificate tag {} with {} items, expected {}", t, a.len(), want))
            } else {
                Ok(())
            }
        };
        match t {
            0 | 1 => {
                arity(self, 2)?;
                self.credential(&a[1], path)
            }
            2 => {
                arity(self, 3)?;
                self.credential(&a[1], path)?;
                self.bytes_n(&a[2], 28, path)
            }
            3 => {
                arity(self, 10)?;
                self.bytes_n(&a[1], 28, path)?;
                self.bytes_n(&a[2], 32, path)?;
                self.uint(&a[3], path)?;
                self.uint(&a[4], path)?;
                self.unit_interval(&a[5], path)?;
                self.reward_account(&a[6], path)?;
                for o in self.set(&a[7], path)?.clone().iter() {
                    self.bytes_n(o, 28, path)?;
                }
                for r in self.array(&a[8], path)?.clone().iter() {
                    self.relay(r, path)?;
                }
                if !a[9].is_null() {
                    let pm = self.array_n(&a[9], 2, path)?;
                    self.text_max(&pm[0], 128, path)?;
                    self.bytes_n(&pm[1], 32, path)?;
                }
                Ok(())
            }
            4 => {
                arity(self, 3)?;
                self.bytes_n(&a[1], 28, path)?;
                self.uint(&a[2], path).map(|_| ())
            }
            5 => {
                arity(self, 4)?;
                self.bytes_n(&a[1], 28, path)?;
                self.bytes_n(&a[2], 28, path)?;
                self.bytes_n(&a[3], 32, path)
            }
            6 => {
                arity(self, 2)?;
                let m = self.array_n(&a[1], 2, path)?;
                let pot = self.uint(&m[0], path)?;
                if pot > 1 {
                    self.err("bad_variant", path, "MIR pot");
                }
                match &m[1].kind {
                    Kind::UInt(_) => self.uint(&m[1], path).map(|_| ()),
                    Kind::Map(_) => {
                        for (c, d) in self.map(&m[1], path)?.clone().iter() {
                            self.credential(c, path)?;
                            self.int(d, path)?;
                        }
                        Ok(())
                    }
                    _ => self.bad("wrong_type", path, "MIR target"),
                }
            }
            7 | 8 => {
                arity(self, 3)?;
                self.credential(&a[1], path)?;
                self.uint(&a[2], path).map(|_| ())
            }
            9 => {
                arity(self, 3)?;
                self.credential(&a[1], path)?;
                self.drep(&a[2], path)
            }
            10 => {
                arity(self, 4)?;
                self.credential(&a[1], path)?;
                self.bytes_n(&a[2], 28, path)?;
                self.drep(&a[3], path)
            }
            11 => {
                arity(self, 4)?;
                self.credential(&a[1], path)?;
                self.bytes_n(&a[2], 28, path)?;
                self.uint(&a[3], path).map(|_| ())
            }
            12 => {
                arity(self, 4)?;
                self.credential(&a[1], path)?;
                self.drep(&a[2], path)?;
                self.uint(&a[3], path).map(|_| ())
            }
            13 => {
                arity(self, 5)?;
                self.credential(&a[1], path)?;
                self.bytes_n(&a[2], 28, path)?;
                self.drep(&a[3], path)?;
                self.uint(&a[4], path).map(|_| ())
            }
            14 => {
                arity(self, 3)?;
                self.credential(&a[1], path)?;
                self.credential(&a[2], path)
            }
            15 => {
                arity(self, 3)?;
                self.credential(&a[1], path)?;
                self.nullable(&a[2], V::anchor, path)
            }
            16 => {
                arity(self, 4)?;
                self.credential(&a[1], path)?;
                self.uint(&a[2], path)?;
                self.nullable(&a[3], V::anchor, path)
            }
            17 => {
                arity(self, 3)?;
                self.credential(&a[1], path)?;
                self.uint(&a[2], path).map(|_| ())
            }
            18 => {
                arity(self, 3)?;
                self.credential(&a[1], path)?;
                self.nullable(&a[2], V::anchor, path)
            }
            _ => self.bad("bad_variant", path, &format!("certificate tag {}", t)),
        }
    }

    fn gov_action_id(&mut self, n: &Node, path: &str) -> R {
        let a = self.array_n(n, 2, path)?;
        self.bytes_n(&a[0], 32, path)?;
        let i = self.uint(&a[1], path)?;
        if i > 65535 {
            self.err("out_of_range", path, "gov action index");
        }
        Ok(())
    }

    fn ex_units(&mut self, n: &Node, path: &str) -> R {
        let a = self.array_n(n, 2, path)?;
        self.uint(&a[0], path)?;
        self.uint(&a[1], path).map(|_| ())
    }

    fn param_update(&mut self, n: &Node, path: &str) -> R {
        for (k, v) in self.map(n, path)?.clone().iter() {
            let key = self.uint(k, path)?;
            match key {
                0 | 1 | 5 | 6 | 7 | 8 | 16 | 17 | 30 | 31 => {
                    self.uint(v, path)?;
                }
                2 | 3 | 4 | 22 | 23 | 24 | 27 | 28 | 29 | 32 => {
                    let x = self.uint(v, path)?;
                    if matches!(key, 2 | 3 | 22 | 24 | 4) && x > u32::MAX as u64 {
                        self.err("out_of_range", path, "32-bit parameter");
                    }
                }
                9 | 10 | 11 => self.unit_interval(v, path)?,
                33 => self.unit_interval(v, path)?,
                18 => {
                    for (l, cm) in self.map(v, path)?.clone().iter() {
                        self.uint(l, path)?;
                        for c in self.array(cm, path)?.clone().iter() {
                            self.int(c, path)?;
                        }
                    }
                }
                19 => {
                    let a = self.array_n(v, 2, path)?;
                    self.unit_interval(&a[0], path)?;
                    self.unit_interval(&a[1], path)?;
                }
                20 | 21 => self.ex_units(v, path)?,
                25 => {
                    for x in self.array_n(v, 5, path)?.clone().iter() {
                        self.unit_interval(x, path)?;
                    }
                }
                26 => {
                    for x in self.array_n(v, 10, path)?.clone().iter() {
                        self.unit_interval(x, path)?;
                    }
                }
                _ => return self.bad("unknown_map_key", path, &format!("protocol parameter key {}", key)),
            }
        }
        Ok(())
    }

    fn gov_action(&mut self, n: &Node, path: &str) -> R {
        let a = self.array(n, path)?;
        if a.is_empty() {
            return self.bad("wrong_arity", path, "gov action");
        }
        let t = self.uint(&a[0], path)?;
        let arity = |v: &mut V, want: usize| -> R {
            if a.len() != want {
                v.bad("wrong_arity", path, &format!("gov action {} with {} items, expected {}", t, a.len(), want))
            } else {
                Ok(())
            }
        };
        match t {
            0 => {
                arity(self, 4)?;
                self.nullable(&a[1], V::gov_action_id, path)?;
                self.param_update(&a[2], path)?;
                if !a[3].is_null() {
                    self.bytes_n(&a[3], 28, path)?;
                }
                Ok(())
            }
            1 => {
                arity(self, 3)?;
                self.nullable(&a[1], V::gov_action_id, path)?;
                let pv = self.array_n(&a[2], 2, path)?;
                self.uint(&pv[0], path)?;
                self.uint(&pv[1], path).map(|_| ())
            }
            2 => {
                arity(self, 3)?;
                for (ra, c) in self.map(&a[1], path)?.clone().iter() {
                    self.reward_account(ra, path)?;
                    self.uint(c, path)?;
                }
                if !a[2].is_null() {
                    self.bytes_n(&a[2], 28, path)?;
                }
                Ok(())
            }
            3 => {
                arity(self, 2)?;
                self.nullable(&a[1], V::gov_action_id, path)
            }
            4 => {
                arity(self, 5)?;
                self.nullable(&a[1], V::gov_action_id, path)?;
                for c in self.set(&a[2], path)?.clone().iter() {
                    self.credential(c, path)?;
                }
                for (c, e) in self.map(&a[3], path)?.clone().iter() {
                    self.credential(c, path)?;
                    self.uint(e, path)?;
                }
                self.unit_interval(&a[4], path)
            }
            5 => {
                arity(self, 3)?;
                self.nullable(&a[1], V::gov_action_id, path)?;
                let c = self.array_n(&a[2], 2, path)?;
                self.anchor(&c[0], path)?;
                if !c[1].is_null() {
                    self.bytes_n(&c[1], 28, path)?;
                }
                Ok(())
            }
            6 => arity(self, 1),
            _ => self.bad("bad_variant", path, "gov action tag"),
        }
    }

    fn metadatum(&mut self, n: &Node, path: &str, depth: usize) -> R {
        if depth > 200 {
            return Ok(());
        }
        match &n.kind {
            Kind::UInt(_) | Kind::NInt(_) => {
                self.minimal(n, path);
                Ok(())
            }
            Kind::Bytes(_) => self.bytes_max(n, 64, path),
            Kind::Text(_) => self.text_max(n, 64, path),
            Kind::Array(_) => {
                for x in self.array(n, path)?.clone().iter() {
                    self.metadatum(x, path, depth + 1)?;
                }
                Ok(())
            }
            Kind::Map(_) => {
                for (k, v) in self.map(n, path)?.clone().iter() {
                    self.metadatum(k, path, depth + 1)?;
                    self.metadatum(v, path, depth + 1)?;
                }
                Ok(())
            }
            _ => self.bad("wrong_type", path, "metadatum"),
        }
    }
    fn metadata(&mut self, n: &Node, path: &str) -> R {
        for (k, v) in self.map(n, path)?.clone().iter() {
            self.uint(k, path)?;
            self.metadatum(v, path, 0)?;
        }
        Ok(())
    }

    fn aux(&mut self, n: &Node) -> R {
        let path = "auxiliary_data";
        match &n.kind {
            Kind::Map(_) => self.metadata(n, path),
            Kind::Array(_) => {
                let a = self.array_n(n, 2, path)?;
                self.metadata(&a[0], path)?;
                for s in self.array(&a[1], path)?.clone().iter() {
                    self.native_script(s, path, 0)?;
                }
                Ok(())
            }
            Kind::Tag(259, inner) => {
                self.minimal(n, path);
                for (k, v) in self.map(inner, path)?.clone().iter() {
                    match self.uint(k, path)? {
                        0 => self.metadata(v, path)?,
                        1 => {
                            for s in self.array(v, path)?.clone().iter() {
                                self.native_script(s, path, 0)?;
                            }
                        }
                        2 | 3 | 4 => {
                            for s in self.array(v, path)?.clone().iter() {
                                self.minimal(s, path);
                                self.definite(s, path);
                                if s.as_bytes().is_none() {
                                    self.err("wrong_type", path, "plutus script in auxiliary data");
                                }
                            }
                        }
                        k => return self.bad("unknown_map_key", path, &format!("auxiliary data key {}", k)),
                    }
                }
                Ok(())
            }
            _ => self.bad("wrong_type", path, "auxiliary data"),
        }
    }

    fn body(&mut self, n: &Node) -> R {
        let m = self.map(n, "body")?;
        let mut seen = vec![];
        for (k, v) in m {
            let key = self.uint(k, "body")?;
            seen.push(key);
            let path = format!("body[{}]", key);
            let p = path.as_str();
            let _ = match key {
                0 => {
                    for i in self.set(v, p)?.clone().iter() {
                        self.txin(i, p)?;
                    }
                    Ok(())
                }
                1 => {
                    for o in self.array(v, p)?.clone().iter() {
                        self.output(o, p)?;
                    }
                    Ok(())
                }
                2 | 3 | 8 | 17 => self.uint(v, p).map(|_| ()),
                21 => self.uint(v, p).map(|_| ()),
                22 => {
                    let d = self.uint(v, p)?;
                    if d == 0 {
                        self.err("out_of_range", p, "donation must be positive");
                    }
                    Ok(())
                }
                4 => {
                    for c in self.nonempty_set(v, p)?.clone().iter() {
                        self.cert(c, p)?;
                    }
                    Ok(())
                }
                5 => {
                    for (ra, c) in self.map(v, p)?.clone().iter() {
                        self.reward_account(ra, p)?;
                        self.uint(c, p)?;
                    }
                    Ok(())
                }
                7 | 11 => self.bytes_n(v, 32, p),
                9 => self.multiasset(v, true, p),
                13 | 18 => {
                    for i in self.nonempty_set(v, p)?.clone().iter() {
                        self.txin(i, p)?;
                    }
                    Ok(())
                }
                14 => {
                    for i in self.nonempty_set(v, p)?.clone().iter() {
                        self.bytes_n(i, 28, p)?;
                    }
                    Ok(())
                }
                15 => {
                    let x = self.uint(v, p)?;
                    if x > 1 {
                        self.err("out_of_range", p, "network id");
                    }
                    Ok(())
                }
                16 => self.output(v, p),
                19 => {
                    let vm = self.map(v, p)?;
                    if vm.is_empty() {
                        self.err("empty_nonempty_set", p, "empty voting procedures");
                    }
                    for (voter, votes) in vm.clone().iter() {
                        let a = self.array_n(voter, 2, p)?;
                        let t = self.uint(&a[0], p)?;
                        if t > 4 {
                            self.err("bad_variant", p, "voter tag");
                        }
                        self.bytes_n(&a[1], 28, p)?;
                        let inner = self.map(votes, p)?;
                        if inner.is_empty() {
                            self.err("empty_nonempty_set", p, "voter without votes");
                        }
                        for (aid, proc_) in inner.clone().iter() {
                            self.gov_action_id(aid, p)?;
                            let pr = self.array_n(proc_, 2, p)?;
                            let vote = self.uint(&pr[0], p)?;
                            if vote > 2 {
                                self.err("out_of_range", p, "vote");
                            }
                            self.nullable(&pr[1], V::anchor, p)?;
                        }
                    }
                    Ok(())
                }
                20 => {
                    for pr in self.nonempty_set(v, p)?.clone().iter() {
                        let a = self.array_n(pr, 4, p)?;
                        self.uint(&a[0], p)?;
                        self.reward_account(&a[1], p)?;
                        self.gov_action(&a[2], p)?;
                        self.anchor(&a[3], p)?;
                    }
                    Ok(())
                }
                k => self.bad("unknown_map_key", p, &format!("body key {}", k)),
            };
        }
        for need in [0u64, 1, 2] {
            if !seen.contains(&need) {
                self.err("missing_field", "body", &format!("required key {} missing", need));
            }
        }
        Ok(())
    }

    fn witness_set(&mut self, n: &Node) -> R {
        for (k, v) in self.map(n, "witness_set")?.clone().iter() {
            let key = self.uint(k, "witness_set")?;
            let path = format!("witness_set[{}]", key);
            let p = path.as_str();
            let _ = match key {
                0 => {
                    for w in self.nonempty_set(v, p)?.clone().iter() {
                        let a = self.array_n(w, 2, p)?;
                        self.bytes_n(&a[0], 32, p)?;
                        self.bytes_n(&a[1], 64, p)?;
                    }
                    Ok(())
                }
                1 => {
                    for s in self.nonempty_set(v, p)?.clone().iter() {
                        self.native_script(s, p, 0)?;
                    }
                    Ok(())
                }
                2 => {
                    for w in self.nonempty_set(v, p)?.clone().iter() {
                        let a = self.array_n(w, 4, p)?;
                        self.bytes_n(&a[0], 32, p)?;
                        self.bytes_n(&a[1], 64, p)?;
                        self.bytes_n(&a[2], 32, p)?;
                        self.minimal(&a[3], p);
                        self.definite(&a[3], p);
                        if a[3].as_bytes().is_none() {
                            self.err("wrong_type", p, "bootstrap attributes");
                        }
                    }
                    Ok(())
                }
                3 | 6 | 7 => {
                    for s in self.nonempty_set(v, p)?.clone().iter() {
                        self.minimal(s, p);
                        self.definite(s, p);
                        if s.as_bytes().is_none() {
                            self.err("wrong_type", p, "plutus script");
                        }
                    }
                    Ok(())
                }
                4 => {
                    // the datum set is a Plutus list inside the library: #6.258([_ ...]) is tolerated
                    match &v.kind {
                        Kind::Tag(258, inner) => {
                            self.minimal(v, p);
                            match inner.as_array() {
                                Some(items) => {
                                    self.minimal(inner, p);
                                    if items.is_empty() {
                                        self.err("empty_nonempty_set", p, "empty datum set");
                                    }
                                    for i in 0..items.len() {
                                        for j in i + 1..items.len() {
                                            if self.bytes[items[i].start..items[i].end] == self.bytes[items[j].start..items[j].end] {
                                                self.err("duplicate_set_element", p, "datum occurs twice");
                                            }
                                        }
                                    }
                                    for d in items.clone().iter() {
                                        self.plutus_data(d, p, 0)?;
                                    }
                                    Ok(())
                                }
                                None => self.bad("wrong_type", p, "datum set"),
                            }
                        }
                        _ => self.bad("set_without_tag_258", p, "datum set without tag 258"),
                    }
                }
                5 => match &v.kind {
                    Kind::Map(_) => {
                        let m = self.map(v, p)?;
                        if m.is_empty() {
                            self.err("empty_nonempty_set", p, "empty redeemers");
                        }
                        for (rk, rv) in m.clone().iter() {
                            let ka = self.array_n(rk, 2, p)?;
                            let t = self.uint(&ka[0], p)?;
                            if t > 5 {
                                self.err("out_of_range", p, "redeemer tag");
                            }
                            let ix = self.uint(&ka[1], p)?;
                            if ix > u32::MAX as u64 {
                                self.err("out_of_range", p, "redeemer index");
                            }
                            let va = self.array_n(rv, 2, p)?;
                            self.plutus_data(&va[0], p, 0)?;
                            self.ex_units(&va[1], p)?;
                        }
                        Ok(())
                    }
                    Kind::Array(_) => {
                        for r in self.array(v, p)?.clone().iter() {
                            let a = self.array_n(r, 4, p)?;
                            let t = self.uint(&a[0], p)?;
                            if t > 5 {
                                self.err("out_of_range", p, "redeemer tag");
                            }
                            self.uint(&a[1], p)?;
                            self.plutus_data(&a[2], p, 0)?;
                            self.ex_units(&a[3], p)?;
                        }
                        Ok(())
                    }
                    _ => self.bad("wrong_type", p, "redeemers"),
                },
                k => self.bad("unknown_map_key", p, &format!("witness set key {}", k)),
            };
        }
        Ok(())
    }

    pub fn transaction(&mut self, root: &Node) {
        let a = match self.array_n(root, 4, "transaction") {
            Ok(a) => a,
            Err(_) => return,
        };
        let _ = self.body(&a[0]);
        let _ = self.witness_set(&a[1]);
        if a[2].as_bool().is_none() {
            self.err("wrong_type", "transaction[2]", "is_valid not a bool");
        }
        if !a[3].is_null() {
            let _ = self.aux(&a[3]);
        }
    }
}

/// Validate a whole transaction; returns (class, detail) list.
pub fn validate_tx(bytes: &[u8]) -> Vec<(String, String)> {
    match crate::cbor::parse(bytes) {
        Ok(root) => {
            let mut v = V::new(bytes);
            v.transaction(&root);
            v.errs
        }
        Err(e) => vec![("not_well_formed_cbor".to_string(), e.0)],
    }
}

//! Interpreter: applies a scenario's operations to real library objects and records the history.
use crate::ctl::{Ev, Sim};
use crate::scn::*;
use crate::world::*;
use cardano_serialization_lib as csl;
use std::panic::{catch_unwind, AssertUnwindSafe};

#[derive(Clone, Debug, PartialEq)]
pub enum Res {
    Ok,
    /// Ok(true/false) of the change functions
    OkBool(bool),
    Err(String),
    Panic(String),
    /// the harness could not apply the operation (dangling reference after shrinking etc.)
    Skipped(&'static str),
}
impl Res {
    pub fn is_ok(&self) -> bool {
        matches!(self, Res::Ok | Res::OkBool(_))
    }
    pub fn class(&self) -> &'static str {
        match self {
            Res::Ok | Res::OkBool(_) => "ok",
            Res::Err(_) => "err",
            Res::Panic(_) => "panic",
            Res::Skipped(_) => "skipped",
        }
    }
}

pub type InList = Vec<((Vec<u8>, u64), GVal)>;

pub fn in_list(v: &[(csl::TransactionInput, csl::Value)]) -> InList {
    v.iter().map(|(i, val)| ((i.transaction_id().to_bytes(), i.index() as u64), GVal::of_csl(val))).collect()
}

/// What was observed around one selection operation (C08).
pub struct SelectObs {
    pub op: usize,
    pub strategy: Strategy,
    pub offered: Vec<usize>,
    pub pre: csl::TransactionBuilder,
    pub pre_inputs: InList,
    pub post_inputs: InList,
    pub res: Res,
    pub events: Vec<Ev>,
    /// library figures after the call (declared measuring devices)
    pub post_total_output: Option<GVal>,
    pub post_min_fee: Option<u64>,
    pub post_implicit_in: Option<GVal>,
    pub post_mint_pos: GVal,
    pub pre_total_input: Option<GVal>,
    pub pre_total_output: Option<GVal>,
    pub pre_min_fee: Option<u64>,
    /// the selection was part of a combined select+change call
    pub combined: bool,
}

/// A successfully produced transaction or body.
pub struct BuiltObs {
    pub op: usize,
    pub full: bool,
    /// bytes of the transaction (full) or of the body
    pub bytes: Vec<u8>,
    pub tx: Option<csl::Transaction>,
    pub body: csl::TransactionBody,
    pub builder: csl::TransactionBuilder,
    pub full_size: Option<usize>,
    /// index of the last successful balancing op before this build, if any
    pub balanced_at: Option<usize>,
    /// ops that can invalidate the balance happened after `balanced_at`
    pub dirty_since_balance: bool,
    /// index of last successful calc_script_data_hash
    pub sdh_at: Option<usize>,
    pub dirty_since_sdh: bool,
    pub sdh_langs: u8,
    /// collateral helper state
    pub coll_set_at: Option<usize>,
    pub coll_dirty: bool,
    pub coll_pct: Option<u64>,
    /// certificates the history has successfully set so far (the interpreter's own mirror builder), as bytes
    pub expected_certs: Vec<Vec<u8>>,
    /// produced by `build_tx_unsafe` (no final balance / fee validation by the library)
    pub unsafe_build: bool,
    /// what the session's collection builders themselves report at that moment (None = error): certificate
    /// deposits, certificate refunds (lovelace), total withdrawals (lovelace)
    pub sub_figures: [Option<u64>; 3],
}

/// An item a redeemer was attached to (ground truth for C10).
#[derive(Clone, Debug, PartialEq)]
pub enum Purpose {
    Spend(Vec<u8>, u64),
    Mint(Vec<u8>),
    Cert(Vec<u8>),
    Reward(Vec<u8>),
    Vote(Vec<u8>),
    Propose(Vec<u8>),
}

#[derive(Clone, Debug)]
pub struct Attach {
    pub op: usize,
    pub red: u32,
    pub purpose: Purpose,
    pub script: ScriptId,
    /// the operation that attached it succeeded
    pub live: bool,
}

pub struct CollEvent {
    pub op: usize,
    pub kind: &'static str,
    pub res: Res,
    pub after: (Option<csl::TransactionOutput>, Option<u64>),
    pub before: (Option<csl::TransactionOutput>, Option<u64>),
}

pub struct History {
    pub results: Vec<Res>,
    pub selects: Vec<SelectObs>,
    pub built: Vec<BuiltObs>,
    pub attaches: Vec<Attach>,
    pub coll_events: Vec<CollEvent>,
    pub draws: Vec<(u32, u32)>,
    pub probes: std::collections::BTreeMap<&'static str, u64>,
    pub digest: u64,
    pub hash_keys: u64,
    pub steps: u64,
    pub final_builder: Option<csl::TransactionBuilder>,
    /// keys the history told the inputs builder will sign, outside the witnesses it declared (a key entry point
    /// used on the way): (op, key hash)
    pub told_keys: Vec<(usize, Vec<u8>)>,
}

fn panic_msg(e: Box<dyn std::any::Any + Send>) -> String {
    if let Some(s) = e.downcast_ref::<&str>() {
        s.to_string()
    } else if let Some(s) = e.downcast_ref::<String>() {
        s.clone()
    } else {
        "panic".to_string()
    }
}

pub fn guard<T>(f: impl FnOnce() -> Result<T, csl::JsError>) -> Result<T, Res> {
    match catch_unwind(AssertUnwindSafe(f)) {
        Ok(Ok(v)) => Ok(v),
        Ok(Err(e)) => Err(Res::Err(format!("{:?}", e))),
        Err(p) => Err(Res::Panic(panic_msg(p))),
    }
}

pub fn bn(x: u64) -> csl::BigNum {
    csl::BigNum::from(x)
}

pub fn config(k: &Knobs) -> csl::TransactionBuilderConfig {
    let mut b = csl::TransactionBuilderConfigBuilder::new()
        .fee_algo(&csl::LinearFee::new(&bn(k.fee_a), &bn(k.fee_b)))
        .pool_deposit(&bn(k.pool_deposit))
        .key_deposit(&bn(k.key_deposit))
        .max_value_size(k.max_value_size)
        .max_tx_size(k.max_tx_size)
        .coins_per_utxo_byte(&bn(k.cpb))
        .prefer_pure_change(k.prefer_pure_change)
        .deduplicate_explicit_ref_inputs_with_regular_inputs(k.dedup_ref_inputs)
        .do_not_burn_extra_change(k.do_not_burn);
    if let Some((a, b2, c, d)) = k.ex_prices {
        b = b.ex_unit_prices(&csl::ExUnitPrices::new(&csl::UnitInterval::new(&bn(a), &bn(b2)), &csl::UnitInterval::new(&bn(c), &bn(d))));
    }
    if let Some((a, b2)) = k.ref_script_price {
        b = b.ref_script_coins_per_byte(&csl::UnitInterval::new(&bn(a), &bn(b2)));
    }
    b.build().expect("config")
}

pub fn strategy(s: Strategy) -> csl::CoinSelectionStrategyCIP2 {
    match s {
        Strategy::LF => csl::CoinSelectionStrategyCIP2::LargestFirst,
        Strategy::RI => csl::CoinSelectionStrategyCIP2::RandomImprove,
        Strategy::LFMA => csl::CoinSelectionStrategyCIP2::LargestFirstMultiAsset,
        Strategy::RIMA => csl::CoinSelectionStrategyCIP2::RandomImproveMultiAsset,
    }
}

pub fn anchor(seed: u64) -> csl::Anchor {
    let url = csl::URL::new(format!("https://a.example/{}", seed)).unwrap();
    let h = csl::AnchorDataHash::from_bytes(blake2b256(&seed.to_be_bytes()).to_vec()).unwrap();
    csl::Anchor::new(&url, &h)
}

/// deterministic cost model for a language (sizes as on mainnet: 166 / 175 / 251 entries)
pub fn cost_model_values(lang: u8) -> Vec<i64> {
    let n = match lang {
        1 => 166,
        2 => 175,
        _ => 251,
    };
    // a few parameters sit on the first / last value of a CBOR width class of negative integers
    const EDGES: [i64; 10] = [-24, -25, -256, -257, -65536, -65537, -4294967296, -4294967297, -1, -23];
    (0..n)
        .map(|i| {
            if i % 13 == 5 {
                EDGES[((i / 13) as usize + lang as usize) % EDGES.len()]
            } else {
                ((i as i64 * 7919 + lang as i64 * 104729) % 100000) - if i % 17 == 0 { 50000 } else { 0 }
            }
        })
        .collect()
}

pub fn costmdls(langs: u8) -> csl::Costmdls {
    let mut c = csl::Costmdls::new();
    for l in 1..=3u8 {
        if langs & (1 << (l - 1)) != 0 {
            let mut cm = csl::CostModel::new();
            for (i, v) in cost_model_values(l).iter().enumerate() {
                let iv = if *v >= 0 { csl::Int::new(&bn(*v as u64)) } else { csl::Int::new_negative(&bn((-*v) as u64)) };
                cm.set(i, &iv).unwrap();
            }
            c.insert(&language(l), &cm);
        }
    }
    c
}

pub struct Session<'a> {
    /// sub-builders handed to the transaction builder so far (bit 0 collateral, 1 certificates, 2 withdrawals, 3 mint, 4 votes, 5 proposals)
    pub handed: u8,
    pub sc: &'a Scenario,
    pub w: &'a World,
    pub tx: csl::TransactionBuilder,
    inb: csl::TxInputsBuilder,
    colb: csl::TxInputsBuilder,
    certs: csl::CertificatesBuilder,
    wdrs: csl::WithdrawalsBuilder,
    mint: csl::MintBuilder,
    votes: csl::VotingBuilder,
    props: csl::VotingProposalBuilder,
    pub h: History,
    balanced_at: Option<usize>,
    dirty_balance: bool,
    sdh_at: Option<usize>,
    dirty_sdh: bool,
    sdh_langs: u8,
    coll_set_at: Option<usize>,
    coll_dirty: bool,
    coll_pct: Option<u64>,
    selected_once: bool,
    /// the body currently carries a script data hash (placeholder or computed)
    sdh_present: bool,
}

fn unit(a: u64, b: u64) -> csl::UnitInterval {
    csl::UnitInterval::new(&bn(a), &bn(b))
}

impl<'a> Session<'a> {
    pub fn new(sc: &'a Scenario) -> Self {
        Session {
            handed: 0,
            sc,
            w: &sc.world,
            tx: csl::TransactionBuilder::new(&config(&sc.knobs)),
            inb: csl::TxInputsBuilder::new(),
            colb: csl::TxInputsBuilder::new(),
            certs: csl::CertificatesBuilder::new(),
            wdrs: csl::WithdrawalsBuilder::new(),
            mint: csl::MintBuilder::new(),
            votes: csl::VotingBuilder::new(),
            props: csl::VotingProposalBuilder::new(),
            h: History {
                results: vec![],
                selects: vec![],
                built: vec![],
                attaches: vec![],
                coll_events: vec![],
                draws: vec![],
                probes: Default::default(),
                digest: 0,
                hash_keys: 0,
                steps: 0,
                final_builder: None,
                told_keys: vec![],
            },
            balanced_at: None,
            dirty_balance: false,
            sdh_at: None,
            dirty_sdh: false,
            sdh_langs: 0,
            coll_set_at: None,
            coll_dirty: false,
            coll_pct: None,
            selected_once: false,
            sdh_present: false,
        }
    }

    /// the history tells the builder the size of the script this UTxO carries through a sized
    /// reference-input listing (with the de-duplication option the input may then also be spent
    /// through an entry point that knows nothing about scripts)
    fn sized_listing(&self, u: usize) -> bool {
        self.sc.knobs.dedup_ref_inputs && self.sc.ops.iter().any(|o| matches!(o, Op::RefIn(x, true) if *x == u))
    }

    fn utxo_ok(&self, i: usize) -> bool {
        i < self.w.utxos.len()
    }
    fn script_ok(&self, s: ScriptId) -> bool {
        (s as usize) < self.w.scripts.len()
    }
    fn datum_ok(&self, d: DatumId) -> bool {
        (d as usize) < self.w.datums.len()
    }
    fn wit_ok(&self, w: &Wit) -> bool {
        self.script_ok(w.script)
            && match &w.how {
                ScriptUse::Witness => true,
                ScriptUse::Ref(u) => self.utxo_ok(*u),
            }
            && match &w.datum {
                DatumUse::None => true,
                DatumUse::Witness(d) => self.datum_ok(*d),
                DatumUse::Ref(u) => self.utxo_ok(*u),
            }
    }
    fn cred_ok(&self, c: &Cred) -> bool {
        match c {
            Cred::Key(_) => true,
            Cred::Script(s) => self.script_ok(*s),
        }
    }
    fn addr_ok(&self, a: &AddrSpec) -> bool {
        match a {
            AddrSpec::Base(p, s) => self.cred_ok(p) && self.cred_ok(s),
            AddrSpec::Ent(p) | AddrSpec::Ptr(p, ..) | AddrSpec::Reward(p) => self.cred_ok(p),
            AddrSpec::Byron(_) | AddrSpec::ByronPath(..) => true,
        }
    }
    fn out_ok(&self, o: &OutSpec) -> bool {
        self.addr_ok(&o.addr)
            && o.script_ref.map_or(true, |s| self.script_ok(s))
            && match &o.datum {
                Some(DatumAt::Hash(d)) | Some(DatumAt::Inline(d)) => self.datum_ok(*d),
                None => true,
            }
    }

    fn key_hashes(&self, ks: &[KeyId]) -> csl::Ed25519KeyHashes {
        let mut r = csl::Ed25519KeyHashes::new();
        for k in ks {
            r.add(&key(*k).hash);
        }
        r
    }

    pub fn redeemer(&self, tag: &csl::RedeemerTag, w: &Wit) -> csl::Redeemer {
        let data = csl::PlutusData::new_integer(&csl::BigInt::from_str(&(1_000_000u64 + w.red as u64).to_string()).unwrap());
        // one redeemer in four arrives with the tag and index of some other use (an object the caller re-used):
        // the builders stamp purpose and index themselves
        let (tag, index) = if w.red % 4 == 3 {
            let t = match w.red % 6 {
                0 => csl::RedeemerTag::new_spend(),
                1 => csl::RedeemerTag::new_mint(),
                2 => csl::RedeemerTag::new_cert(),
                3 => csl::RedeemerTag::new_reward(),
                4 => csl::RedeemerTag::new_vote(),
                _ => csl::RedeemerTag::new_voting_proposal(),
            };
            (t, 3 + (w.red % 7) as u64)
        } else {
            (tag.clone(), 0)
        };
        csl::Redeemer::new(&tag, &bn(index), &data, &csl::ExUnits::new(&bn(w.mem), &bn(w.steps)))
    }

    fn native_source(&self, w: &Wit) -> Option<csl::NativeScriptSource> {
        let ns = match self.w.script_val(w.script) {
            ScriptVal::Native(n) => n,
            _ => return None,
        };
        let mut src = match &w.how {
            ScriptUse::Witness => csl::NativeScriptSource::new(&ns),
            ScriptUse::Ref(u) => {
                let size = csl::ScriptRef::new_native_script(&ns).to_unwrapped_bytes().len();
                csl::NativeScriptSource::new_ref_input(&ns.hash(), &self.w.input_of(&self.w.utxos[*u]), size)
            }
        };
        if let Some(s) = &w.signers {
            src.set_required_signers(&self.key_hashes(s));
        }
        Some(src)
    }

    fn plutus_source(&self, w: &Wit) -> Option<csl::PlutusScriptSource> {
        let ps = match self.w.script_val(w.script) {
            ScriptVal::Plutus(p) => p,
            _ => return None,
        };
        let mut src = match &w.how {
            ScriptUse::Witness => csl::PlutusScriptSource::new(&ps),
            ScriptUse::Ref(u) => {
                let size = csl::ScriptRef::new_plutus_script(&ps).to_unwrapped_bytes().len();
                csl::PlutusScriptSource::new_ref_input(&ps.hash(), &self.w.input_of(&self.w.utxos[*u]), &ps.language_version(), size)
            }
        };
        if let Some(s) = &w.signers {
            src.set_required_signers(&self.key_hashes(s));
        }
        Some(src)
    }

    fn plutus_witness(&self, tag: &csl::RedeemerTag, w: &Wit) -> Option<csl::PlutusWitness> {
        let src = self.plutus_source(w)?;
        let red = self.redeemer(tag, w);
        Some(match &w.datum {
            DatumUse::None => csl::PlutusWitness::new_with_ref_without_datum(&src, &red),
            DatumUse::Witness(d) => csl::PlutusWitness::new_with_ref(&src, &csl::DatumSource::new(&self.w.datum(*d)), &red),
            DatumUse::Ref(u) => csl::PlutusWitness::new_with_ref(&src, &csl::DatumSource::new_ref_input(&self.w.input_of(&self.w.utxos[*u])), &red),
        })
    }

    fn is_plutus(&self, w: &Wit) -> bool {
        self.w.scripts[w.script as usize].is_plutus()
    }

    /// The same output as another program would hand it over: serialized in the requested container
    /// form by the harness's own writer and decoded by the library (which remembers the form).
    fn reform(out: csl::TransactionOutput, form: u8) -> Result<csl::TransactionOutput, Res> {
        if form == 0 {
            return Ok(out);
        }
        let bytes = out.to_bytes();
        let node = match crate::cbor::parse(&bytes) {
            Ok(n) => n,
            Err(_) => return Ok(out),
        };
        let mut enc: Vec<u8> = vec![];
        if let Some(items) = node.as_array() {
            if form == 1 {
                enc = bytes.clone();
            } else {
                crate::cbor::w_map(&mut enc, items.len() as u64);
                for (i, it) in items.iter().enumerate() {
                    crate::cbor::w_uint(&mut enc, i as u64);
                    if i == 2 {
                        crate::cbor::w_array(&mut enc, 2);
                        crate::cbor::w_uint(&mut enc, 0);
                    }
                    enc.extend_from_slice(it.span(&bytes));
                }
            }
        } else if let Some(entries) = node.as_map() {
            let hash_only = entries.iter().all(|(k, v)| match k.as_u64() {
                Some(0) | Some(1) => true,
                Some(2) => v.idx(0).and_then(|t| t.as_u64()) == Some(0),
                _ => false,
            });
            if form == 1 && hash_only {
                crate::cbor::w_array(&mut enc, entries.len() as u64);
                for want in 0..3u64 {
                    for (k, v) in entries {
                        if k.as_u64() == Some(want) {
                            if want == 2 {
                                enc.extend_from_slice(v.idx(1).unwrap().span(&bytes));
                            } else {
                                enc.extend_from_slice(v.span(&bytes));
                            }
                        }
                    }
                }
            } else {
                enc = bytes.clone();
            }
        } else {
            return Ok(out);
        }
        guard(|| csl::TransactionOutput::from_bytes(enc).map_err(|e| csl::JsError::from_str(&format!("{:?}", e))))
    }

    pub fn output(&self, o: &OutSpec) -> Result<csl::TransactionOutput, Res> {
        if o.form == 3 && !o.min_coin {
            // the same output through the output builder's chain (address -> datum / script -> amount), with the
            // amount step that fits: coin only, coin and assets, or a whole value
            let addr = self.w.address(&o.addr);
            let w = self.w;
            return guard(|| {
                let mut b = csl::TransactionOutputBuilder::new().with_address(&addr);
                match &o.datum {
                    Some(DatumAt::Hash(d)) => b = b.with_data_hash(&csl::hash_plutus_data(&w.datum(*d))),
                    Some(DatumAt::Inline(d)) => b = b.with_plutus_data(&w.datum(*d)),
                    None => {}
                }
                if let Some(s) = o.script_ref {
                    b = b.with_script_ref(&w.script_val(s).script_ref());
                }
                let amount = b.next()?;
                match (w.multiasset(&o.assets), o.coin % 2) {
                    (None, 0) => amount.with_coin(&bn(o.coin)).build(),
                    (Some(ma), 0) => amount.with_coin_and_asset(&bn(o.coin), &ma).build(),
                    _ => amount.with_value(&w.value(o.coin, &o.assets)).build(),
                }
            });
        }
        Self::reform(self.output_plain(o)?, if o.form == 3 { 0 } else { o.form })
    }

    fn output_plain(&self, o: &OutSpec) -> Result<csl::TransactionOutput, Res> {
        let addr = self.w.address(&o.addr);
        if o.min_coin {
            let w = self.w;
            let cpb = self.sc.knobs.cpb;
            return guard(|| {
                let mut b = csl::TransactionOutputBuilder::new().with_address(&addr);
                match &o.datum {
                    Some(DatumAt::Hash(d)) => b = b.with_data_hash(&csl::hash_plutus_data(&w.datum(*d))),
                    Some(DatumAt::Inline(d)) => b = b.with_plutus_data(&w.datum(*d)),
                    None => {}
                }
                if let Some(s) = o.script_ref {
                    b = b.with_script_ref(&w.script_val(s).script_ref());
                }
                let ma = w.multiasset(&o.assets).unwrap_or_else(csl::MultiAsset::new);
                b.next()?.with_asset_and_min_required_coin_by_utxo_cost(&ma, &csl::DataCost::new_coins_per_byte(&bn(cpb)))?.build()
            });
        }
        let mut out = csl::TransactionOutput::new(&addr, &self.w.value(o.coin, &o.assets));
        match &o.datum {
            Some(DatumAt::Hash(d)) => out.set_data_hash(&csl::hash_plutus_data(&self.w.datum(*d))),
            Some(DatumAt::Inline(d)) => out.set_plutus_data(&self.w.datum(*d)),
            None => {}
        }
        if let Some(s) = o.script_ref {
            out.set_script_ref(&self.w.script_val(s).script_ref());
        }
        Ok(out)
    }

    fn drep(&self, d: &DRepSpec) -> csl::DRep {
        match d {
            DRepSpec::Key(k) => csl::DRep::new_key_hash(&key(*k).hash),
            DRepSpec::Script(s) => csl::DRep::new_script_hash(&self.w.script_hash(*s)),
            DRepSpec::Abstain => csl::DRep::new_always_abstain(),
            DRepSpec::NoConfidence => csl::DRep::new_always_no_confidence(),
        }
    }

    pub fn cert(&self, c: &CertSpec) -> csl::Certificate {
        let w = self.w;
        match c {
            CertSpec::StakeReg(cr) => csl::Certificate::new_stake_registration(&csl::StakeRegistration::new(&w.cred(cr))),
            CertSpec::StakeRegCoin(cr, coin) => csl::Certificate::new_stake_registration(&csl::StakeRegistration::new_with_explicit_deposit(&w.cred(cr), &bn(*coin))),
            CertSpec::StakeDereg(cr) => csl::Certificate::new_stake_deregistration(&csl::StakeDeregistration::new(&w.cred(cr))),
            CertSpec::StakeDeregCoin(cr, coin) => csl::Certificate::new_stake_deregistration(&csl::StakeDeregistration::new_with_explicit_refund(&w.cred(cr), &bn(*coin))),
            CertSpec::StakeDeleg(cr, pool) => csl::Certificate::new_stake_delegation(&csl::StakeDelegation::new(&w.cred(cr), &key(*pool).hash)),
            CertSpec::PoolReg { operator, owners, reward, pledge, cost, relays, meta } => {
                let mut rl = csl::Relays::new();
                for i in 0..*relays {
                    match i % 3 {
                        // every combination of the optional fields occurs (port, IPv4, IPv6 present or `null`)
                        0 => {
                            let combo = (i / 3).wrapping_add((*cost % 8) as u8) % 8;
                            let port = if combo & 1 == 0 { Some(3000 + i as u16) } else { None };
                            let v4 = if combo & 2 == 0 { Some(csl::Ipv4::new(vec![10, 0, 0, i]).unwrap()) } else { None };
                            let v6 = if combo & 4 != 0 { Some(csl::Ipv6::new(vec![0x20, 1, 0xd, 0xb8, 0, 0, 0, 0, 0, 0, 0, 0, 0, 0, 0, i]).unwrap()) } else { None };
                            rl.add(&csl::Relay::new_single_host_addr(&csl::SingleHostAddr::new(port, v4, v6)))
                        }
                        1 => rl.add(&csl::Relay::new_single_host_name(&csl::SingleHostName::new(if (*cost / 8) % 2 == 1 { Some(6000 + i as u16) } else { None }, &csl::DNSRecordAorAAAA::new(format!("r{}.example.com", i)).unwrap()))),
                        _ => rl.add(&csl::Relay::new_multi_host_name(&csl::MultiHostName::new(&csl::DNSRecordSRV::new(format!("_s{}._tcp.example.com", i)).unwrap()))),
                    }
                }
                let pm = if *meta {
                    Some(csl::PoolMetadata::new(&csl::URL::new("https://pool.example/m.json".to_string()).unwrap(), &csl::PoolMetadataHash::from_bytes(blake2b256(b"pm").to_vec()).unwrap()))
                } else {
                    None
                };
                let params = csl::PoolParams::new(
                    &key(*operator).hash,
                    &csl::VRFKeyHash::from_bytes(blake2b256(&[*operator as u8, 1]).to_vec()).unwrap(),
                    &bn(*pledge),
                    &bn(*cost),
                    &unit(1, 20),
                    &w.reward_address(reward),
                    &self.key_hashes(owners),
                    &rl,
                    pm,
                );
                csl::Certificate::new_pool_registration(&csl::PoolRegistration::new(&params))
            }
            CertSpec::PoolRetire(k, e) => csl::Certificate::new_pool_retirement(&csl::PoolRetirement::new(&key(*k).hash, *e)),
            CertSpec::GenesisDeleg(a, b, c2) => csl::Certificate::new_genesis_key_delegation(&csl::GenesisKeyDelegation::new(
                &csl::GenesisHash::from_bytes(blake2b224(&[*a, 7]).to_vec()).unwrap(),
                &csl::GenesisDelegateHash::from_bytes(blake2b224(&[*b, 8]).to_vec()).unwrap(),
                &csl::VRFKeyHash::from_bytes(blake2b256(&[*c2, 9]).to_vec()).unwrap(),
            )),
            CertSpec::MirPot(pot, amt) => {
                let p = if *pot == 0 { csl::MIRPot::Reserves } else { csl::MIRPot::Treasury };
                csl::Certificate::new_move_instantaneous_rewards_cert(&csl::MoveInstantaneousRewardsCert::new(&csl::MoveInstantaneousReward::new_to_other_pot(p, &bn(*amt))))
            }
            CertSpec::MirCreds(pot, v) => {
                let p = if *pot == 0 { csl::MIRPot::Reserves } else { csl::MIRPot::Treasury };
                let mut m = csl::MIRToStakeCredentials::new();
                for (cr, d) in v {
                    let di = if *d >= 0 { csl::Int::new(&bn(*d as u64)) } else { csl::Int::new_negative(&bn((-*d) as u64)) };
                    m.insert(&w.cred(cr), &di);
                }
                csl::Certificate::new_move_instantaneous_rewards_cert(&csl::MoveInstantaneousRewardsCert::new(&csl::MoveInstantaneousReward::new_to_stake_creds(p, &m)))
            }
            CertSpec::CommitteeHotAuth(a, b) => csl::Certificate::new_committee_hot_auth(&csl::CommitteeHotAuth::new(&w.cred(a), &w.cred(b))),
            CertSpec::CommitteeColdResign(a, anc) => {
                if *anc {
                    csl::Certificate::new_committee_cold_resign(&csl::CommitteeColdResign::new_with_anchor(&w.cred(a), &anchor(1)))
                } else {
                    csl::Certificate::new_committee_cold_resign(&csl::CommitteeColdResign::new(&w.cred(a)))
                }
            }
            CertSpec::DRepReg(a, coin, anc) => {
                if *anc {
                    csl::Certificate::new_drep_registration(&csl::DRepRegistration::new_with_anchor(&w.cred(a), &bn(*coin), &anchor(2)))
                } else {
                    csl::Certificate::new_drep_registration(&csl::DRepRegistration::new(&w.cred(a), &bn(*coin)))
                }
            }
            CertSpec::DRepDereg(a, coin) => csl::Certificate::new_drep_deregistration(&csl::DRepDeregistration::new(&w.cred(a), &bn(*coin))),
            CertSpec::DRepUpdate(a, anc) => {
                if *anc {
                    csl::Certificate::new_drep_update(&csl::DRepUpdate::new_with_anchor(&w.cred(a), &anchor(3)))
                } else {
                    csl::Certificate::new_drep_update(&csl::DRepUpdate::new(&w.cred(a)))
                }
            }
            CertSpec::StakeVoteDeleg(a, p, d) => csl::Certificate::new_stake_and_vote_delegation(&csl::StakeAndVoteDelegation::new(&w.cred(a), &key(*p).hash, &self.drep(d))),
            CertSpec::VoteDeleg(a, d) => csl::Certificate::new_vote_delegation(&csl::VoteDelegation::new(&w.cred(a), &self.drep(d))),
            CertSpec::StakeRegDeleg(a, p, coin) => csl::Certificate::new_stake_registration_and_delegation(&csl::StakeRegistrationAndDelegation::new(&w.cred(a), &key(*p).hash, &bn(*coin))),
            CertSpec::VoteRegDeleg(a, d, coin) => csl::Certificate::new_vote_registration_and_delegation(&csl::VoteRegistrationAndDelegation::new(&w.cred(a), &self.drep(d), &bn(*coin))),
            CertSpec::StakeVoteRegDeleg(a, p, d, coin) => {
                csl::Certificate::new_stake_vote_registration_and_delegation(&csl::StakeVoteRegistrationAndDelegation::new(&w.cred(a), &key(*p).hash, &self.drep(d), &bn(*coin)))
            }
        }
    }

    fn action_id(&self, id: &(u32, u32)) -> csl::GovernanceActionId {
        csl::GovernanceActionId::new(&csl::TransactionHash::from_bytes(tx_hash_bytes(0x4000_0000 | id.0).to_vec()).unwrap(), id.1)
    }

    pub fn voter(&self, v: &VoterSpec) -> csl::Voter {
        match v {
            VoterSpec::CcHot(c) => csl::Voter::new_constitutional_committee_hot_credential(&self.w.cred(c)),
            VoterSpec::DRep(c) => csl::Voter::new_drep_credential(&self.w.cred(c)),
            VoterSpec::Pool(k) => csl::Voter::new_stake_pool_key_hash(&key(*k).hash),
        }
    }

    pub fn proposal(&self, p: &ProposalSpec) -> csl::VotingProposal {
        let w = self.w;
        let action = match &p.action {
            ActionSpec::ParamChange { prev, policy, fields } => {
                let mut u = csl::ProtocolParamUpdate::new();
                if fields & 1 != 0 {
                    u.set_minfee_a(&bn(45));
                }
                if fields & 2 != 0 {
                    u.set_max_tx_size(20000);
                }
                if fields & 4 != 0 {
                    u.set_key_deposit(&bn(3_000_000));
                }
                if fields & 8 != 0 {
                    u.set_ada_per_utxo_byte(&bn(4400));
                }
                if fields & 16 != 0 {
                    u.set_execution_costs(&csl::ExUnitPrices::new(&unit(1, 10), &unit(1, 100)));
                }
                if fields & 32 != 0 {
                    u.set_max_tx_ex_units(&csl::ExUnits::new(&bn(14_000_000), &bn(10_000_000_000)));
                }
                if fields & 64 != 0 {
                    u.set_ref_script_coins_per_byte(&unit(15, 1));
                }
                if fields & 128 != 0 {
                    u.set_governance_action_deposit(&bn(100_000_000_000));
                }
                let a = match (prev, policy) {
                    (None, None) => csl::ParameterChangeAction::new(&u),
                    (Some(i), None) => csl::ParameterChangeAction::new_with_action_id(&self.action_id(i), &u),
                    (None, Some(s)) => csl::ParameterChangeAction::new_with_policy_hash(&u, &w.script_hash(*s)),
                    (Some(i), Some(s)) => csl::ParameterChangeAction::new_with_policy_hash_and_action_id(&self.action_id(i), &u, &w.script_hash(*s)),
                };
                csl::GovernanceAction::new_parameter_change_action(&a)
            }
            ActionSpec::HardFork { prev, major, minor } => {
                let pv = csl::ProtocolVersion::new(*major, *minor);
                let a = match prev {
                    None => csl::HardForkInitiationAction::new(&pv),
                    Some(i) => csl::HardForkInitiationAction::new_with_action_id(&self.action_id(i), &pv),
                };
                csl::GovernanceAction::new_hard_fork_initiation_action(&a)
            }
            ActionSpec::TreasuryWdr { to, policy } => {
                let mut tw = csl::TreasuryWithdrawals::new();
                for (c, amt) in to {
                    tw.insert(&w.reward_address(c), &bn(*amt));
                }
                let a = match policy {
                    None => csl::TreasuryWithdrawalsAction::new(&tw),
                    Some(s) => csl::TreasuryWithdrawalsAction::new_with_policy_hash(&tw, &w.script_hash(*s)),
                };
                csl::GovernanceAction::new_treasury_withdrawals_action(&a)
            }
            ActionSpec::NoConfidence { prev } => {
                let a = match prev {
                    None => csl::NoConfidenceAction::new(),
                    Some(i) => csl::NoConfidenceAction::new_with_action_id(&self.action_id(i)),
                };
                csl::GovernanceAction::new_no_confidence_action(&a)
            }
            ActionSpec::UpdateCommittee { prev, remove, add, q } => {
                let mut cm = csl::Committee::new(&unit(q.0, q.1));
                for (c, e) in add {
                    cm.add_member(&w.cred(c), *e);
                }
                let mut rm = csl::Credentials::new();
                for c in remove {
                    rm.add(&w.cred(c));
                }
                let a = match prev {
                    None => csl::UpdateCommitteeAction::new(&cm, &rm),
                    Some(i) => csl::UpdateCommitteeAction::new_with_action_id(&self.action_id(i), &cm, &rm),
                };
                csl::GovernanceAction::new_new_committee_action(&a)
            }
            ActionSpec::NewConstitution { prev, script } => {
                let c = match script {
                    None => csl::Constitution::new(&anchor(5)),
                    Some(s) => csl::Constitution::new_with_script_hash(&anchor(5), &w.script_hash(*s)),
                };
                let a = match prev {
                    None => csl::NewConstitutionAction::new(&c),
                    Some(i) => csl::NewConstitutionAction::new_with_action_id(&self.action_id(i), &c),
                };
                csl::GovernanceAction::new_new_constitution_action(&a)
            }
            ActionSpec::Info => csl::GovernanceAction::new_info_action(&csl::InfoAction::new()),
        };
        let mut anc = anchor(p.deposit ^ 0x55);
        if p.mirror != 0 {
            let url = csl::URL::new(format!("https://mirror{}.example/{}", p.mirror, p.deposit ^ 0x55)).unwrap();
            anc = csl::Anchor::new(&url, &anc.anchor_data_hash());
        }
        csl::VotingProposal::new(&action, &anc, &w.reward_address(&p.reward), &bn(p.deposit))
    }

    fn metadatum(seed: u8, depth: u8) -> csl::TransactionMetadatum {
        match (seed as u32 + depth as u32 * 3) % 5 {
            0 => csl::TransactionMetadatum::new_int(&csl::Int::new_i32(seed as i32 * 1000 - 7)),
            1 => csl::TransactionMetadatum::new_text(format!("text-{}", seed)).unwrap(),
            2 => csl::TransactionMetadatum::new_bytes(vec![seed; (seed % 64) as usize]).unwrap(),
            3 if depth < 3 => {
                let mut l = csl::MetadataList::new();
                for i in 0..(seed % 4) {
                    l.add(&Self::metadatum(seed.wrapping_add(i + 1), depth + 1));
                }
                csl::TransactionMetadatum::new_list(&l)
            }
            4 if depth < 3 => {
                let mut m = csl::MetadataMap::new();
                for i in 0..(seed % 3) {
                    m.insert(&csl::TransactionMetadatum::new_int(&csl::Int::new_i32(i as i32)), &Self::metadatum(seed.wrapping_add(i + 11), depth + 1));
                }
                csl::TransactionMetadatum::new_map(&m)
            }
            _ => csl::TransactionMetadatum::new_int(&csl::Int::new_i32(seed as i32)),
        }
    }

    /// equal value, other bytes: what `from_bytes` makes of another producer's encoding of `b`
    fn alt_encoding(&self, b: &[u8], idx: usize) -> Option<Vec<u8>> {
        if self.sc.alt_values == 0 {
            return None;
        }
        let mut r = crate::prng::Rng::new(crate::prng::mix(self.sc.alt_values as u64, idx as u64));
        if r.chance(1, 3) {
            return None;
        }
        let n = crate::cbor::parse(b).ok()?;
        let mut f = crate::cbor::Foreign::new(&mut r, 120, 150, 0, 0);
        f.p_untag = 600;
        let mut o = vec![];
        f.emit(&n, &mut o);
        Some(o)
    }

    fn mark_value_change(&mut self) {
        self.dirty_balance = true;
    }
    fn mark_script_change(&mut self) {
        self.dirty_sdh = true;
    }
    fn mark_coll_change(&mut self) {
        self.coll_dirty = true;
    }

    fn coll_fields(&self) -> (Option<csl::TransactionOutput>, Option<u64>) {
        let (r, t) = self.tx.verif_collateral_fields();
        (r, t.map(|x| u64::from(x)))
    }

    fn offered(&self, ids: &[usize]) -> csl::TransactionUnspentOutputs {
        let mut u = csl::TransactionUnspentOutputs::new();
        for (pos, i) in ids.iter().enumerate() {
            if self.utxo_ok(*i) {
                let plain = self.w.utxo(*i);
                // as a wallet connector hands UTxOs over: CBOR of another producer, decoded here
                // (every position with its own encoding, so a repeated offer differs in bytes)
                let decoded = self.alt_utxo_encoding(&plain.to_bytes(), pos).and_then(|b| csl::TransactionUnspentOutput::from_bytes(b).ok());
                u.add(&decoded.unwrap_or(plain));
            }
        }
        u
    }

    /// a world UTxO as the caller hands it to an `add_*_utxo` entry point: built through the API, or
    /// (alt_values) decoded from another producer's CBOR
    fn utxo_as_handed_over(&self, u: usize, idx: usize) -> csl::TransactionUnspentOutput {
        let plain = self.w.utxo(u);
        let decoded = self.alt_utxo_encoding(&plain.to_bytes(), 1000 + idx).and_then(|b| csl::TransactionUnspentOutput::from_bytes(b).ok());
        decoded.unwrap_or(plain)
    }

    fn alt_utxo_encoding(&self, b: &[u8], pos: usize) -> Option<Vec<u8>> {
        if self.sc.alt_values == 0 {
            return None;
        }
        let mut r = crate::prng::Rng::new(crate::prng::mix(self.sc.alt_values as u64 ^ 0x5555, pos as u64));
        if r.chance(1, 2) {
            return None;
        }
        let n = crate::cbor::parse(b).ok()?;
        let mut f = crate::cbor::Foreign::new(&mut r, 100, 200, 0, 300);
        let mut o = vec![];
        f.emit(&n, &mut o);
        Some(o)
    }

    fn change_config(&self, c: &ChangeSpec) -> csl::ChangeConfig {
        let mut cfg = csl::ChangeConfig::new(&self.w.address(&c.addr));
        match &c.datum {
            Some(DatumAt::Hash(d)) => cfg = cfg.change_plutus_data(&csl::OutputDatum::new_data_hash(&csl::hash_plutus_data(&self.w.datum(*d)))),
            Some(DatumAt::Inline(d)) => cfg = cfg.change_plutus_data(&csl::OutputDatum::new_data(&self.w.datum(*d))),
            None => {}
        }
        if let Some(s) = c.script_ref {
            cfg = cfg.change_script_ref(&self.w.script_val(s).script_ref());
        }
        cfg
    }
    fn change_ok(&self, c: &ChangeSpec) -> bool {
        self.addr_ok(&c.addr)
            && c.script_ref.map_or(true, |s| self.script_ok(s))
            && match &c.datum {
                Some(DatumAt::Hash(d)) | Some(DatumAt::Inline(d)) => self.datum_ok(*d),
                None => true,
            }
    }

    fn gval_opt(v: Result<csl::Value, csl::JsError>) -> Option<GVal> {
        v.ok().map(|x| GVal::of_csl(&x))
    }

    fn select_pre(&self, op: usize, strategy: Strategy, offered: &[usize], sim: &Sim, combined: bool) -> (SelectObs, usize) {
        let pre = self.tx.clone();
        let ev0 = sim.events_len();
        let mut mint_pos = GVal::default();
        if let Some(mb) = pre.get_mint_builder() {
            if let Ok(m) = mb.build() {
                mint_pos = GVal::of_csl(&csl::Value::new_from_assets(&m.as_positive_multiasset()));
            }
        }
        let obs = SelectObs {
            op,
            strategy,
            offered: offered.iter().cloned().filter(|i| self.utxo_ok(*i)).collect(),
            pre_inputs: in_list(&pre.verif_input_list()),
            pre_total_input: Self::gval_opt(pre.get_total_input()),
            pre_total_output: Self::gval_opt(pre.get_total_output()),
            pre_min_fee: pre.min_fee().ok().map(u64::from),
            pre,
            post_inputs: vec![],
            res: Res::Ok,
            events: vec![],
            post_total_output: None,
            post_min_fee: None,
            post_implicit_in: None,
            post_mint_pos: mint_pos,
            combined,
        };
        (obs, ev0)
    }

    fn select_post(&mut self, mut obs: SelectObs, ev0: usize, res: Res, sim: &Sim) {
        obs.post_inputs = in_list(&self.tx.verif_input_list());
        obs.events = sim.events_from(ev0);
        obs.res = res;
        if !obs.combined {
            obs.post_total_output = Self::gval_opt(self.tx.get_total_output());
            obs.post_min_fee = self.tx.min_fee().ok().map(u64::from);
        }
        obs.post_implicit_in = Self::gval_opt(self.tx.get_implicit_input());
        self.h.selects.push(obs);
    }

    fn record_built(&mut self, op: usize, full: bool, tx: Option<csl::Transaction>, body: csl::TransactionBody) {
        let bytes = match &tx {
            Some(t) => t.to_bytes(),
            None => body.to_bytes(),
        };
        let full_size = self.tx.full_size().ok();
        self.h.built.push(BuiltObs {
            op,
            full,
            bytes,
            tx,
            body,
            builder: self.tx.clone(),
            full_size,
            balanced_at: self.balanced_at,
            dirty_since_balance: self.dirty_balance,
            sdh_at: self.sdh_at,
            dirty_since_sdh: self.dirty_sdh,
            sdh_langs: self.sdh_langs,
            coll_set_at: self.coll_set_at,
            coll_dirty: self.coll_dirty,
            coll_pct: self.coll_pct,
            expected_certs: {
                let c = self.certs.build();
                (0..c.len()).map(|i| c.get(i).to_bytes()).collect()
            },
            unsafe_build: false,
            sub_figures: {
                let (pd, kd) = (bn(self.sc.knobs.pool_deposit), bn(self.sc.knobs.key_deposit));
                [
                    self.certs.get_certificates_deposit(&pd, &kd).ok().map(u64::from),
                    self.certs.get_certificates_refund(&pd, &kd).ok().map(|v| u64::from(v.coin())),
                    self.wdrs.get_total_withdrawals().ok().map(|v| u64::from(v.coin())),
                ]
            },
        });
    }

    /// A Plutus script can only see signatories listed in the body's required signers, so a
    /// history that declares signers on a Plutus script source also lists them there.
    fn couple_plutus_signers(&mut self, op: &Op, r: &Res) {
        if !r.is_ok() {
            return;
        }
        let wit = match op {
            Op::InScript { wit, .. } => Some(wit),
            Op::Cert(_, Some(w)) | Op::Wdr(_, _, Some(w)) | Op::Propose(_, Some(w)) => Some(w),
            Op::Mint { wit, .. } => Some(wit),
            Op::Vote { wit: Some(w), .. } => Some(w),
            _ => None,
        };
        if let Some(w) = wit {
            if (w.script as usize) < self.w.scripts.len() && self.is_plutus(w) {
                if let Some(ks) = &w.signers {
                    for k in ks {
                        self.tx.add_required_signer(&key(*k).hash);
                    }
                }
            }
        }
    }

    pub fn apply(&mut self, idx: usize, op: &Op, sim: &Sim) -> Res {
        let r = self.apply_inner(idx, op, sim);
        self.couple_plutus_signers(op, &r);
        r
    }

    fn apply_inner(&mut self, idx: usize, op: &Op, sim: &Sim) -> Res {
        macro_rules! need {
            ($c:expr) => {
                if !($c) {
                    return Res::Skipped("dangling reference");
                }
            };
        }
        macro_rules! g {
            ($e:expr) => {
                match guard(|| $e) {
                    Ok(v) => v,
                    Err(r) => return r,
                }
            };
        }
        match op {
            Op::InUtxo(u) => {
                need!(self.utxo_ok(*u));
                let utxo = self.utxo_as_handed_over(*u, idx);
                let inb = &mut self.inb;
                g!(inb.add_regular_utxo(&utxo));
                self.tx.set_inputs(&self.inb);
                self.mark_value_change();
                self.mark_script_change();
                Res::Ok
            }
            Op::InLegacy(u) => {
                need!(self.utxo_ok(*u));
                let ut = &self.w.utxos[*u];
                if ut.script_ref.is_some() && !self.sized_listing(*u) {
                    // the older entry points cannot be told about a reference script on the UTxO
                    return Res::Skipped("legacy input entry point cannot declare a reference script");
                }
                let input = self.w.input_of(ut);
                let val = self.w.value(ut.coin, &ut.assets);
                match &ut.addr {
                    AddrSpec::Byron(k) => self.inb.add_bootstrap_input(&byron(*k, self.w.magic).addr, &input, &val),
                    AddrSpec::ByronPath(k, l) => self.inb.add_bootstrap_input(&byron_with_path(*k, self.w.magic, *l).addr, &input, &val),
                    a => match a.pay_cred() {
                        Some(Cred::Key(k)) => self.inb.add_key_input(&key(*k).hash, &input, &val),
                        _ => return Res::Skipped("legacy input needs key or byron owner"),
                    },
                }
                self.tx.set_inputs(&self.inb);
                self.mark_value_change();
                self.mark_script_change();
                Res::Ok
            }
            Op::InScript { utxo, wit, by_utxo, mistaken } => {
                need!(self.utxo_ok(*utxo) && self.wit_ok(wit));
                let ut = &self.w.utxos[*utxo];
                let input = self.w.input_of(ut);
                let val = self.w.value(ut.coin, &ut.assets);
                let full = self.utxo_as_handed_over(*utxo, idx);
                let outpoint = self.w.outpoint(*utxo);
                // (bit 14 of the id: between the mistaken and the right hand-over the input also goes through the key entry
                // point, which does not look at the address either - three hand-overs of one outpoint)
                let detour = mistaken.map_or(false, |m| m & 0x4000 != 0);
                let mistaken = mistaken.map(|m| m & 0x3fff);
                if let (Some(ms), true) = (&mistaken, self.is_plutus(wit)) {
                    if (*ms as usize) < self.w.scripts.len() && *ms != wit.script && self.w.scripts[*ms as usize].is_plutus() {
                        let wrong = Wit { script: *ms, how: ScriptUse::Witness, datum: DatumUse::None, red: wit.red.wrapping_add(500_000_000), mem: 1, steps: 1, signers: None };
                        if let Some(pw) = self.plutus_witness(&csl::RedeemerTag::new_spend(), &wrong) {
                            self.inb.add_plutus_script_input(&pw, &input, &val);
                            // replaced at once by the call below: never live
                            self.h.attaches.push(Attach { op: idx, red: wrong.red, purpose: Purpose::Spend(outpoint.0.clone(), outpoint.1), script: wrong.script, live: false });
                            if detour {
                                // (the key entry point registers its key as a signer for good: the wallet has told the builder so)
                                self.inb.add_key_input(&key(0).hash, &input, &val);
                                self.h.told_keys.push((idx, key(0).hash_bytes.to_vec()));
                            }
                        }
                    }
                }
                if self.is_plutus(wit) {
                    let pw = match self.plutus_witness(&csl::RedeemerTag::new_spend(), wit) {
                        Some(x) => x,
                        None => return Res::Skipped("not a plutus script"),
                    };
                    let r = if *by_utxo {
                        let inb = &mut self.inb;
                        match guard(|| inb.add_plutus_script_utxo(&full, &pw)) {
                            Ok(()) => Res::Ok,
                            Err(r) => r,
                        }
                    } else {
                        self.inb.add_plutus_script_input(&pw, &input, &val);
                        Res::Ok
                    };
                    if r.is_ok() {
                        // the same input handed over again with another redeemer (a correction): the later witness replaces the earlier one
                        let p = Purpose::Spend(outpoint.0.clone(), outpoint.1);
                        for a in self.h.attaches.iter_mut() {
                            if a.purpose == p {
                                a.live = false;
                            }
                        }
                    }
                    self.h.attaches.push(Attach { op: idx, red: wit.red, purpose: Purpose::Spend(outpoint.0, outpoint.1), script: wit.script, live: r.is_ok() });
                    if !r.is_ok() {
                        return r;
                    }
                } else {
                    let src = match self.native_source(wit) {
                        Some(x) => x,
                        None => return Res::Skipped("not a native script"),
                    };
                    if *by_utxo {
                        let inb = &mut self.inb;
                        g!(inb.add_native_script_utxo(&full, &src));
                    } else {
                        self.inb.add_native_script_input(&src, &input, &val);
                    }
                }
                self.tx.set_inputs(&self.inb);
                self.mark_value_change();
                self.mark_script_change();
                Res::Ok
            }
            Op::InScriptThenRegular { utxo, wit, checked } => {
                need!(self.utxo_ok(*utxo) && self.wit_ok(wit));
                let ut = &self.w.utxos[*utxo];
                if !matches!(ut.addr.pay_cred(), Some(Cred::Key(_))) || ut.script_ref.is_some() {
                    return Res::Skipped("correction history needs a key-owned UTxO");
                }
                let pw = match self.plutus_witness(&csl::RedeemerTag::new_spend(), wit) {
                    Some(x) if self.is_plutus(wit) => x,
                    _ => return Res::Skipped("not a plutus script"),
                };
                let input = self.w.input_of(ut);
                let val = self.w.value(ut.coin, &ut.assets);
                let full = self.utxo_as_handed_over(*utxo, idx);
                let outpoint = self.w.outpoint(*utxo);
                if *checked {
                    // the entry point that looks at the address: a key-owned UTxO has to be refused, and only then
                    // does the wallet fall back to the regular entry point
                    let inb = &mut self.inb;
                    if guard(|| inb.add_plutus_script_utxo(&full, &pw)).is_ok() {
                        // accepted: the wallet believes it has added a script input with this redeemer
                        self.h.attaches.push(Attach { op: idx, red: wit.red, purpose: Purpose::Spend(outpoint.0, outpoint.1), script: wit.script, live: true });
                        self.tx.set_inputs(&self.inb);
                        self.mark_value_change();
                        self.mark_script_change();
                        return Res::Ok;
                    }
                } else {
                    self.inb.add_plutus_script_input(&pw, &input, &val);
                }
                // the mistaken attachment is replaced at once: it is never live
                self.h.attaches.push(Attach { op: idx, red: wit.red, purpose: Purpose::Spend(outpoint.0, outpoint.1), script: wit.script, live: false });
                let inb = &mut self.inb;
                g!(inb.add_regular_utxo(&full));
                self.tx.set_inputs(&self.inb);
                self.mark_value_change();
                self.mark_script_change();
                Res::Ok
            }
            Op::InReqSigner(k) => {
                if *k % 2 == 0 {
                    // the plural entry point, with a one-element collection
                    let mut one = csl::Ed25519KeyHashes::new();
                    one.add(&key(*k).hash);
                    self.inb.add_required_signers(&one);
                } else {
                    self.inb.add_required_signer(&key(*k).hash);
                }
                self.tx.set_inputs(&self.inb);
                self.mark_value_change();
                Res::Ok
            }
            Op::InDirect(u) => {
                need!(self.utxo_ok(*u));
                let ut = &self.w.utxos[*u];
                if ut.script_ref.is_some() && !self.sized_listing(*u) {
                    return Res::Skipped("legacy input entry point cannot declare a reference script");
                }
                let input = self.w.input_of(ut);
                let val = self.w.value(ut.coin, &ut.assets);
                let addr = self.w.address(&ut.addr);
                #[allow(deprecated)]
                {
                    let tx = &mut self.tx;
                    g!(tx.add_regular_input(&addr, &input, &val));
                }
                self.mark_value_change();
                Res::Ok
            }
            Op::CollUtxo(u) => {
                need!(self.utxo_ok(*u));
                let utxo = self.utxo_as_handed_over(*u, idx);
                let colb = &mut self.colb;
                g!(colb.add_regular_utxo(&utxo));
                self.tx.set_collateral(&self.colb);
                self.handed |= 1 << 0;
                self.mark_value_change();
                self.mark_coll_change();
                Res::Ok
            }
            Op::CollReturn(o) => {
                need!(self.out_ok(o));
                let out = match self.output(o) {
                    Ok(x) => x,
                    Err(r) => return r,
                };
                self.tx.set_collateral_return(&out);
                self.mark_value_change();
                self.mark_coll_change();
                Res::Ok
            }
            Op::CollTotal(t) => {
                self.tx.set_total_collateral(&bn(*t));
                self.mark_value_change();
                self.mark_coll_change();
                Res::Ok
            }
            Op::RemoveCollReturn => {
                self.tx.remove_collateral_return();
                self.mark_value_change();
                self.mark_coll_change();
                Res::Ok
            }
            Op::RemoveCollTotal => {
                self.tx.remove_total_collateral();
                self.mark_value_change();
                self.mark_coll_change();
                Res::Ok
            }
            Op::CollReturnAndTotal(o) => {
                need!(self.out_ok(o));
                let out = match self.output(o) {
                    Ok(x) => x,
                    Err(r) => return r,
                };
                let before = self.coll_fields();
                let tx = &mut self.tx;
                let r = match guard(|| tx.set_collateral_return_and_total(&out)) {
                    Ok(()) => Res::Ok,
                    Err(r) => r,
                };
                let after = self.coll_fields();
                self.h.coll_events.push(CollEvent { op: idx, kind: "return_and_total", res: r.clone(), before, after });
                self.mark_value_change();
                if r.is_ok() {
                    self.coll_set_at = Some(idx);
                    self.coll_dirty = false;
                    self.coll_pct = None;
                }
                r
            }
            Op::CollTotalAndReturn(t, a) => {
                need!(self.addr_ok(a));
                let addr = self.w.address(a);
                let before = self.coll_fields();
                let tx = &mut self.tx;
                let r = match guard(|| tx.set_total_collateral_and_return(&bn(*t), &addr)) {
                    Ok(()) => Res::Ok,
                    Err(r) => r,
                };
                let after = self.coll_fields();
                self.h.coll_events.push(CollEvent { op: idx, kind: "total_and_return", res: r.clone(), before, after });
                self.mark_value_change();
                if r.is_ok() {
                    self.coll_set_at = Some(idx);
                    self.coll_dirty = false;
                    self.coll_pct = None;
                }
                r
            }
            Op::Out(o) => {
                need!(self.out_ok(o));
                let out = match self.output(o) {
                    Ok(x) => x,
                    Err(r) => return r,
                };
                let tx = &mut self.tx;
                g!(tx.add_output(&out));
                self.mark_value_change();
                Res::Ok
            }
            Op::MintAndOut { script, name, qty, addr, coin } => {
                need!(self.script_ok(*script) && self.addr_ok(addr));
                let ns = match self.w.script_val(*script) {
                    ScriptVal::Native(n) => n,
                    _ => return Res::Skipped("mint-and-output needs a native script"),
                };
                let an = match csl::AssetName::new(name.clone()) {
                    Ok(a) => a,
                    Err(_) => return Res::Skipped("asset name"),
                };
                let address = self.w.address(addr);
                let tx = &mut self.tx;
                let r = guard(|| {
                    let ob = csl::TransactionOutputBuilder::new().with_address(&address).next()?;
                    match coin {
                        Some(c) => tx.add_mint_asset_and_output(&ns, &an, &csl::Int::new(&bn(*qty)), &ob, &bn(*c)),
                        None => tx.add_mint_asset_and_output_min_required_coin(&ns, &an, &csl::Int::new(&bn(*qty)), &ob),
                    }
                });
                // the builder now owns a mint builder we do not mirror: resync ours from it
                if let Some(mb) = self.tx.get_mint_builder() {
                    self.mint = mb;
                    self.handed |= 8;
                }
                self.mark_value_change();
                self.mark_script_change();
                match r {
                    Ok(()) => Res::Ok,
                    Err(r) => r,
                }
            }
            Op::Cert(c, wit) => {
                need!(wit.as_ref().map_or(true, |w| self.wit_ok(w)));
                need!(self.cert_ok(c));
                let mut cert = self.cert(c);
                let cert_bytes = cert.to_bytes();
                if let Some(alt) = self.alt_encoding(&cert_bytes, idx) {
                    if let Ok(c2) = csl::Certificate::from_bytes(alt) {
                        cert = c2;
                    }
                }
                let r = match wit {
                    None => {
                        let b = &mut self.certs;
                        guard(|| b.add(&cert))
                    }
                    Some(w) if self.is_plutus(w) => {
                        let pw = self.plutus_witness(&csl::RedeemerTag::new_cert(), w).unwrap();
                        let b = &mut self.certs;
                        let r = guard(|| b.add_with_plutus_witness(&cert, &pw));
                        self.h.attaches.push(Attach { op: idx, red: w.red, purpose: Purpose::Cert(cert_bytes), script: w.script, live: r.is_ok() });
                        r
                    }
                    Some(w) => {
                        let src = self.native_source(w).unwrap();
                        let b = &mut self.certs;
                        guard(|| b.add_with_native_script(&cert, &src))
                    }
                };
                self.tx.set_certs_builder(&self.certs);
                self.handed |= 1 << 1;
                self.mark_value_change();
                self.mark_script_change();
                match r {
                    Ok(()) => Res::Ok,
                    Err(r) => r,
                }
            }
            Op::Wdr(c, amt, wit) => {
                need!(self.cred_ok(c) && wit.as_ref().map_or(true, |w| self.wit_ok(w)));
                let ra = self.w.reward_address(c);
                let ra_bytes = ra.to_address().to_bytes();
                let r = match wit {
                    None => {
                        let b = &mut self.wdrs;
                        guard(|| b.add(&ra, &bn(*amt)))
                    }
                    Some(w) if self.is_plutus(w) => {
                        let pw = self.plutus_witness(&csl::RedeemerTag::new_reward(), w).unwrap();
                        let b = &mut self.wdrs;
                        let r = guard(|| b.add_with_plutus_witness(&ra, &bn(*amt), &pw));
                        // a later add for the same account replaces the earlier one
                        for a in self.h.attaches.iter_mut() {
                            if a.purpose == Purpose::Reward(ra_bytes.clone()) && r.is_ok() {
                                a.live = false;
                            }
                        }
                        self.h.attaches.push(Attach { op: idx, red: w.red, purpose: Purpose::Reward(ra_bytes), script: w.script, live: r.is_ok() });
                        r
                    }
                    Some(w) => {
                        let src = self.native_source(w).unwrap();
                        let b = &mut self.wdrs;
                        let r = guard(|| b.add_with_native_script(&ra, &bn(*amt), &src));
                        for a in self.h.attaches.iter_mut() {
                            if a.purpose == Purpose::Reward(ra_bytes.clone()) && r.is_ok() {
                                a.live = false;
                            }
                        }
                        r
                    }
                };
                self.tx.set_withdrawals_builder(&self.wdrs);
                self.handed |= 1 << 2;
                self.mark_value_change();
                self.mark_script_change();
                match r {
                    Ok(()) => Res::Ok,
                    Err(r) => r,
                }
            }
            Op::Mint { wit, name, qty, set } => {
                need!(self.wit_ok(wit));
                let an = match csl::AssetName::new(name.clone()) {
                    Ok(a) => a,
                    Err(_) => return Res::Skipped("asset name"),
                };
                let amount = if *qty >= 0 { csl::Int::new(&bn(*qty as u64)) } else { csl::Int::new_negative(&bn(qty.unsigned_abs())) };
                let policy = self.w.policy_bytes(wit.script).to_vec();
                let mw = if self.is_plutus(wit) {
                    let src = self.plutus_source(wit).unwrap();
                    csl::MintWitness::new_plutus_script(&src, &self.redeemer(&csl::RedeemerTag::new_mint(), wit))
                } else {
                    csl::MintWitness::new_native_script(&self.native_source(wit).unwrap())
                };
                let b = &mut self.mint;
                let r = guard(|| if *set { b.set_asset(&mw, &an, &amount) } else { b.add_asset(&mw, &an, &amount) });
                if self.is_plutus(wit) {
                    let already = self.h.attaches.iter().any(|a| a.live && a.purpose == Purpose::Mint(policy.clone()));
                    if !already {
                        self.h.attaches.push(Attach { op: idx, red: wit.red, purpose: Purpose::Mint(policy), script: wit.script, live: r.is_ok() });
                    }
                }
                self.tx.set_mint_builder(&self.mint);
                self.handed |= 1 << 3;
                self.mark_value_change();
                self.mark_script_change();
                match r {
                    Ok(()) => Res::Ok,
                    Err(r) => r,
                }
            }
            Op::Vote { voter, action, vote, anchor: anc, wit } => {
                need!(wit.as_ref().map_or(true, |w| self.wit_ok(w)));
                need!(match voter {
                    VoterSpec::CcHot(c) | VoterSpec::DRep(c) => self.cred_ok(c),
                    _ => true,
                });
                let v = self.voter(voter);
                let vbytes = v.to_bytes();
                let aid = self.action_id(action);
                let kind = match vote % 3 {
                    0 => csl::VoteKind::No,
                    1 => csl::VoteKind::Yes,
                    _ => csl::VoteKind::Abstain,
                };
                let vp = if *anc { csl::VotingProcedure::new_with_anchor(kind, &anchor(9)) } else { csl::VotingProcedure::new(kind) };
                let r = match wit {
                    None => {
                        let b = &mut self.votes;
                        guard(|| b.add(&v, &aid, &vp))
                    }
                    Some(w) if self.is_plutus(w) => {
                        let pw = self.plutus_witness(&csl::RedeemerTag::new_vote(), w).unwrap();
                        let b = &mut self.votes;
                        let r = guard(|| b.add_with_plutus_witness(&v, &aid, &vp, &pw));
                        let already = self.h.attaches.iter().any(|a| a.live && a.purpose == Purpose::Vote(vbytes.clone()));
                        if !already {
                            self.h.attaches.push(Attach { op: idx, red: w.red, purpose: Purpose::Vote(vbytes), script: w.script, live: r.is_ok() });
                        }
                        r
                    }
                    Some(w) => {
                        let src = self.native_source(w).unwrap();
                        let b = &mut self.votes;
                        guard(|| b.add_with_native_script(&v, &aid, &vp, &src))
                    }
                };
                self.tx.set_voting_builder(&self.votes);
                self.handed |= 1 << 4;
                self.mark_value_change();
                self.mark_script_change();
                match r {
                    Ok(()) => Res::Ok,
                    Err(r) => r,
                }
            }
            Op::Propose(p, wit) => {
                need!(self.cred_ok(&p.reward) && wit.as_ref().map_or(true, |w| self.wit_ok(w)));
                need!(self.proposal_ok(p));
                let mut prop = self.proposal(p);
                let pbytes = prop.to_bytes();
                if let Some(alt) = self.alt_encoding(&pbytes, idx) {
                    if let Ok(p2) = csl::VotingProposal::from_bytes(alt) {
                        prop = p2;
                    }
                }
                let r = match wit {
                    None => {
                        let b = &mut self.props;
                        guard(|| b.add(&prop))
                    }
                    Some(w) => {
                        if !self.is_plutus(w) {
                            return Res::Skipped("proposal witness must be plutus");
                        }
                        let pw = self.plutus_witness(&csl::RedeemerTag::new_voting_proposal(), w).unwrap();
                        let b = &mut self.props;
                        let r = guard(|| b.add_with_plutus_witness(&prop, &pw));
                        self.h.attaches.push(Attach { op: idx, red: w.red, purpose: Purpose::Propose(pbytes), script: w.script, live: r.is_ok() });
                        r
                    }
                };
                self.tx.set_voting_proposal_builder(&self.props);
                self.handed |= 1 << 5;
                self.mark_value_change();
                self.mark_script_change();
                match r {
                    Ok(()) => Res::Ok,
                    Err(r) => r,
                }
            }
            Op::Meta(m) => {
                match m {
                    MetaSpec::Metadatum(label, seed) => {
                        self.tx.add_metadatum(&bn(*label), &Self::metadatum(*seed, 0));
                    }
                    MetaSpec::Json(label, seed) => {
                        let json = format!("{{\"k{}\":[{},\"v\"],\"n\":{}}}", seed, *seed as u32 * 3, seed);
                        let tx = &mut self.tx;
                        g!(tx.add_json_metadatum(&bn(*label), json));
                    }
                    MetaSpec::Text(label, chars, bpc) => {
                        let ch = match bpc {
                            1 => "a",
                            2 => "\u{e9}",
                            _ => "\u{20ac}",
                        };
                        let json = format!("\"{}\"", ch.repeat(*chars as usize));
                        let tx = &mut self.tx;
                        g!(tx.add_json_metadatum(&bn(*label), json));
                    }
                    MetaSpec::Empty(kind) => match kind % 3 {
                        0 => self.tx.set_metadata(&csl::GeneralTransactionMetadata::new()),
                        1 => self.tx.set_auxiliary_data(&csl::AuxiliaryData::new()),
                        _ => {
                            let mut aux = csl::AuxiliaryData::new();
                            aux.set_native_scripts(&csl::NativeScripts::new());
                            self.tx.set_auxiliary_data(&aux);
                        }
                    },
                    MetaSpec::AuxScripts { native, plutus, prefer_alonzo } => {
                        need!(native.iter().chain(plutus.iter()).all(|s| self.script_ok(*s)));
                        let mut aux = self.tx.get_auxiliary_data().unwrap_or_else(csl::AuxiliaryData::new);
                        let mut ns = csl::NativeScripts::new();
                        for s in native {
                            if let ScriptVal::Native(n) = self.w.script_val(*s) {
                                ns.add(&n);
                            }
                        }
                        if ns.len() > 0 {
                            aux.set_native_scripts(&ns);
                        }
                        let mut ps = csl::PlutusScripts::new();
                        for s in plutus {
                            if let ScriptVal::Plutus(p) = self.w.script_val(*s) {
                                ps.add(&p);
                            }
                        }
                        if ps.len() > 0 {
                            aux.set_plutus_scripts(&ps);
                        }
                        aux.set_prefer_alonzo_format(*prefer_alonzo);
                        self.tx.set_auxiliary_data(&aux);
                    }
                }
                self.mark_value_change();
                Res::Ok
            }
            Op::ReqSigner(k) => {
                self.tx.add_required_signer(&key(*k).hash);
                self.mark_value_change();
                Res::Ok
            }
            Op::RefIn(u, with_size) => {
                need!(self.utxo_ok(*u));
                let ut = &self.w.utxos[*u];
                let input = self.w.input_of(ut);
                match (with_size, ut.script_ref) {
                    (true, Some(s)) => {
                        let size = self.w.script_val(s).script_ref().to_unwrapped_bytes().len();
                        self.tx.add_script_reference_input(&input, size)
                    }
                    _ => self.tx.add_reference_input(&input),
                }
                self.mark_value_change();
                Res::Ok
            }
            Op::ExtraDatum(d) => {
                need!(self.datum_ok(*d));
                self.tx.add_extra_witness_datum(&self.w.datum(*d));
                self.mark_value_change();
                self.mark_script_change();
                Res::Ok
            }
            Op::Ttl(t) => {
                self.tx.set_ttl_bignum(&bn(*t));
                self.mark_value_change();
                Res::Ok
            }
            Op::Start(t) => {
                self.tx.set_validity_start_interval_bignum(bn(*t));
                self.mark_value_change();
                Res::Ok
            }
            Op::Donation(d) => {
                self.tx.set_donation(&bn(*d));
                self.mark_value_change();
                Res::Ok
            }
            Op::Treasury(t) => {
                let tx = &mut self.tx;
                g!(tx.set_current_treasury_value(&bn(*t)));
                self.mark_value_change();
                Res::Ok
            }
            Op::FeeExact(f) => {
                self.tx.set_fee(&bn(*f));
                self.mark_value_change();
                Res::Ok
            }
            Op::FeeMin(f) => {
                self.tx.set_min_fee(&bn(*f));
                self.mark_value_change();
                Res::Ok
            }
            Op::RemoveTtl => {
                self.tx.remove_ttl();
                self.mark_value_change();
                Res::Ok
            }
            Op::RemoveStart => {
                self.tx.remove_validity_start_interval();
                self.mark_value_change();
                Res::Ok
            }
            Op::RemoveCerts => {
                self.tx.remove_certs();
                self.handed &= !(1 << 1);
                self.certs = csl::CertificatesBuilder::new();
                for a in self.h.attaches.iter_mut() {
                    if matches!(a.purpose, Purpose::Cert(_)) {
                        a.live = false;
                    }
                }
                self.mark_value_change();
                self.mark_script_change();
                Res::Ok
            }
            Op::RemoveWithdrawals => {
                self.tx.remove_withdrawals();
                self.handed &= !(1 << 2);
                self.wdrs = csl::WithdrawalsBuilder::new();
                for a in self.h.attaches.iter_mut() {
                    if matches!(a.purpose, Purpose::Reward(_)) {
                        a.live = false;
                    }
                }
                self.mark_value_change();
                self.mark_script_change();
                Res::Ok
            }
            Op::RemoveMint => {
                self.tx.remove_mint_builder();
                self.handed &= !(1 << 3);
                self.mint = csl::MintBuilder::new();
                for a in self.h.attaches.iter_mut() {
                    if matches!(a.purpose, Purpose::Mint(_)) {
                        a.live = false;
                    }
                }
                self.mark_value_change();
                self.mark_script_change();
                Res::Ok
            }
            Op::RemoveAux => {
                self.tx.remove_auxiliary_data();
                self.mark_value_change();
                Res::Ok
            }
            Op::RemoveScriptDataHash => {
                self.tx.remove_script_data_hash();
                self.sdh_present = false;
                self.sdh_at = None;
                self.mark_value_change();
                Res::Ok
            }
            Op::SetCertsLegacy | Op::SetCertsLegacyWith(_) => {
                // only certificates that need no script witness can go through the old setter
                let built = self.certs.build();
                let mut plain = csl::Certificates::new();
                for i in 0..built.len() {
                    let c = built.get(i);
                    if !c.has_required_script_witness() {
                        plain.add(&c);
                    }
                }
                if let Op::SetCertsLegacyWith(extra) = op {
                    need!(self.cert_ok(extra));
                    plain.add(&self.cert(extra));
                }
                let tx = &mut self.tx;
                #[allow(deprecated)]
                let r = guard(|| tx.set_certs(&plain));
                if r.is_ok() {
                    let mut nb = csl::CertificatesBuilder::new();
                    for i in 0..plain.len() {
                        let _ = nb.add(&plain.get(i));
                    }
                    self.certs = nb;
                    self.handed |= 2;
                    for a in self.h.attaches.iter_mut() {
                        if matches!(a.purpose, Purpose::Cert(_)) {
                            a.live = false;
                        }
                    }
                }
                self.mark_value_change();
                self.mark_script_change();
                match r {
                    Ok(()) => Res::Ok,
                    Err(r) => r,
                }
            }
            Op::SetWithdrawalsLegacy => {
                let built = self.wdrs.build();
                let mut plain = csl::Withdrawals::new();
                let keys = built.keys();
                for i in 0..keys.len() {
                    let ra = keys.get(i);
                    if !ra.payment_cred().has_script_hash() {
                        if let Some(c) = built.get(&ra) {
                            plain.insert(&ra, &c);
                        }
                    }
                }
                let tx = &mut self.tx;
                #[allow(deprecated)]
                let r = guard(|| tx.set_withdrawals(&plain));
                if r.is_ok() {
                    let mut nb = csl::WithdrawalsBuilder::new();
                    let keys = plain.keys();
                    for i in 0..keys.len() {
                        let ra = keys.get(i);
                        if let Some(c) = plain.get(&ra) {
                            let _ = nb.add(&ra, &c);
                        }
                    }
                    self.wdrs = nb;
                    self.handed |= 4;
                    for a in self.h.attaches.iter_mut() {
                        if matches!(a.purpose, Purpose::Reward(_)) {
                            a.live = false;
                        }
                    }
                }
                self.mark_value_change();
                self.mark_script_change();
                match r {
                    Ok(()) => Res::Ok,
                    Err(r) => r,
                }
            }
            Op::MintLegacy { script, name, qty, set } => {
                need!(self.script_ok(*script));
                let ns = match self.w.script_val(*script) {
                    ScriptVal::Native(n) => n,
                    _ => return Res::Skipped("legacy mint needs a native script"),
                };
                let an = match csl::AssetName::new(name.clone()) {
                    Ok(a) => a,
                    Err(_) => return Res::Skipped("asset name"),
                };
                let amount = if *qty >= 0 { csl::Int::new(&bn(*qty as u64)) } else { csl::Int::new_negative(&bn(qty.unsigned_abs())) };
                let tx = &mut self.tx;
                #[allow(deprecated)]
                let r = guard(|| {
                    if *set {
                        let ma = csl::MintAssets::new_from_entry(&an, &amount)?;
                        tx.set_mint_asset(&ns, &ma)
                    } else {
                        tx.add_mint_asset(&ns, &an, &amount)
                    }
                });
                if let Some(mb) = self.tx.get_mint_builder() {
                    self.mint = mb;
                    self.handed |= 8;
                }
                self.mark_value_change();
                self.mark_script_change();
                match r {
                    Ok(()) => Res::Ok,
                    Err(r) => r,
                }
            }
            Op::HandOverAgain(mask) => {
                // the front end hands the collection builders it holds over again (nothing changed in them):
                // the transaction builder must be exactly what it was
                let m = *mask & self.handed;
                if m & 1 != 0 {
                    self.tx.set_collateral(&self.colb);
                }
                if m & 2 != 0 {
                    self.tx.set_certs_builder(&self.certs);
                }
                if m & 4 != 0 {
                    self.tx.set_withdrawals_builder(&self.wdrs);
                }
                if m & 8 != 0 {
                    self.tx.set_mint_builder(&self.mint);
                }
                if m & 16 != 0 {
                    self.tx.set_voting_builder(&self.votes);
                }
                if m & 32 != 0 {
                    self.tx.set_voting_proposal_builder(&self.props);
                }
                if m == 0 {
                    return Res::Skipped("nothing handed over yet");
                }
                Res::Ok
            }
            Op::SetMintLegacy(refuse) => {
                let mint_from = self.sc.ops.iter().enumerate().take(idx).filter(|(_, o)| matches!(o, Op::RemoveMint)).map(|(i, _)| i + 1).last().unwrap_or(0);
                let declared = self.sc.ops.iter().enumerate().take(idx).skip(mint_from).any(|(_, o)| matches!(o, Op::Mint { wit, .. } if wit.signers.is_some() || wit.how != ScriptUse::Witness));
                if declared || self.mint.get_plutus_witnesses().len() > 0 || self.mint.get_ref_inputs().len() > 0 {
                    return Res::Skipped("the old setter would lose a declaration");
                }
                let tx0 = &self.tx;
                #[allow(deprecated)]
                let cur = match guard(|| Ok((tx0.get_mint(), tx0.get_mint_scripts()))) {
                    Ok((Some(m), Some(s))) if m.len() > 0 => (m, s),
                    _ => return Res::Skipped("no native mint to hand back"),
                };
                let (mint, mut scripts) = cur;
                if *refuse {
                    let mut fewer = csl::NativeScripts::new();
                    for i in 1..scripts.len() {
                        fewer.add(&scripts.get(i));
                    }
                    scripts = fewer;
                }
                let tx = &mut self.tx;
                #[allow(deprecated)]
                let r = guard(|| tx.set_mint(&mint, &scripts));
                if r.is_ok() {
                    if *refuse {
                        return Res::Err("the old mint setter accepted a mint without one of its scripts".into());
                    }
                    if let Some(mb) = self.tx.get_mint_builder() {
                        self.mint = mb;
                        self.handed |= 8;
                    }
                }
                match r {
                    Ok(()) => Res::Ok,
                    Err(r) => r,
                }
            }
            Op::SetInputsAgain => {
                self.tx.set_inputs(&self.inb);
                self.mark_value_change();
                self.mark_script_change();
                Res::Ok
            }
            Op::Select(s, ids) => {
                let (obs, ev0) = self.select_pre(idx, *s, ids, sim, false);
                let offered = self.offered(ids);
                let tx = &mut self.tx;
                let r = match guard(|| tx.add_inputs_from(&offered, strategy(*s))) {
                    Ok(()) => Res::Ok,
                    Err(r) => r,
                };
                self.select_post(obs, ev0, r.clone(), sim);
                self.selected_once = true;
                self.mark_value_change();
                self.mark_script_change();
                r
            }
            Op::Change(c) => {
                need!(self.change_ok(c));
                let addr = self.w.address(&c.addr);
                let tx = &mut self.tx;
                let r = match (&c.datum, c.script_ref) {
                    (None, None) => guard(|| tx.add_change_if_needed(&addr)),
                    (Some(d), None) => {
                        let od = match d {
                            DatumAt::Hash(d) => csl::OutputDatum::new_data_hash(&csl::hash_plutus_data(&self.w.datum(*d))),
                            DatumAt::Inline(d) => csl::OutputDatum::new_data(&self.w.datum(*d)),
                        };
                        guard(|| tx.add_change_if_needed_with_datum(&addr, &od))
                    }
                    // a change script reference is only reachable through the combined entry point
                    (_, Some(_)) => {
                        let cfg = self.change_config(c);
                        let empty = csl::TransactionUnspentOutputs::new();
                        let tx = &mut self.tx;
                        guard(|| tx.add_inputs_from_and_change(&empty, csl::CoinSelectionStrategyCIP2::LargestFirstMultiAsset, &cfg))
                    }
                };
                match r {
                    Ok(b) => {
                        self.balanced_at = Some(idx);
                        self.dirty_balance = false;
                        Res::OkBool(b)
                    }
                    Err(r) => r,
                }
            }
            Op::SelectAndChange(s, ids, c) => {
                need!(self.change_ok(c));
                let (obs, ev0) = self.select_pre(idx, *s, ids, sim, true);
                let offered = self.offered(ids);
                let cfg = self.change_config(c);
                let tx = &mut self.tx;
                let r = match guard(|| tx.add_inputs_from_and_change(&offered, strategy(*s), &cfg)) {
                    Ok(b) => Res::OkBool(b),
                    Err(r) => r,
                };
                self.select_post(obs, ev0, r.clone(), sim);
                self.selected_once = true;
                self.mark_value_change();
                self.mark_script_change();
                if r.is_ok() {
                    self.balanced_at = Some(idx);
                    self.dirty_balance = false;
                }
                r
            }
            Op::SelectChangeCollateral(s, ids, c, pct) => {
                need!(self.change_ok(c));
                let (obs, ev0) = self.select_pre(idx, *s, ids, sim, true);
                let offered = self.offered(ids);
                let cfg = self.change_config(c);
                let before = self.coll_fields();
                let tx = &mut self.tx;
                let r = match guard(|| tx.add_inputs_from_and_change_with_collateral_return(&offered, strategy(*s), &cfg, &bn(*pct))) {
                    Ok(()) => Res::Ok,
                    Err(r) => r,
                };
                let after = self.coll_fields();
                self.h.coll_events.push(CollEvent { op: idx, kind: "percentage_helper", res: r.clone(), before, after });
                self.select_post(obs, ev0, r.clone(), sim);
                self.selected_once = true;
                self.mark_value_change();
                self.mark_script_change();
                if r.is_ok() {
                    self.balanced_at = Some(idx);
                    self.dirty_balance = false;
                    self.coll_set_at = Some(idx);
                    self.coll_dirty = false;
                    self.coll_pct = Some(*pct);
                }
                r
            }
            Op::ScriptDataHash(langs) => {
                let cm = costmdls(*langs);
                let tx = &mut self.tx;
                g!(tx.calc_script_data_hash(&cm));
                // (a calculation over nothing - no redeemer, no datum yet - leaves the body without the field)
                // (probed on a copy that is given some fee, so that a body can be made before the balancing)
                let mut probe = self.tx.clone();
                if probe.get_fee_if_set().is_none() {
                    probe.set_fee(&bn(2_000_000));
                }
                let (now_present, known) = match guard(|| probe.build()) {
                    Ok(b) => (b.script_data_hash().is_some(), true),
                    Err(_) => (true, false),
                };
                if now_present != self.sdh_present || !known {
                    // a field appears in (or leaves) the body that was (not) there when the fee was fixed
                    self.mark_value_change();
                }
                self.sdh_present = now_present;
                self.sdh_at = Some(idx);
                self.dirty_sdh = false;
                self.sdh_langs = *langs;
                Res::Ok
            }
            Op::PresetScriptDataHash => {
                self.tx.set_script_data_hash(&csl::ScriptDataHash::from_bytes(vec![0u8; 32]).unwrap());
                if !self.sdh_present {
                    self.mark_value_change();
                }
                self.sdh_present = true;
                Res::Ok
            }
            Op::Build => {
                let tx = &self.tx;
                let body = g!(tx.build());
                self.record_built(idx, false, None, body);
                Res::Ok
            }
            Op::BuildTx => {
                let tx = &self.tx;
                let t = g!(tx.build_tx());
                let body = t.body();
                self.record_built(idx, true, Some(t), body);
                Res::Ok
            }
            Op::BuildTxUnsafe => {
                let tx = &self.tx;
                let t = g!(tx.build_tx_unsafe());
                let body = t.body();
                self.record_built(idx, true, Some(t), body);
                if let Some(b) = self.h.built.last_mut() {
                    b.unsafe_build = true;
                }
                Res::Ok
            }
            Op::Observe => {
                // the collection builders the session holds are observed too (what a front end does to show a preview)
                let _ = self.certs.build();
                let _ = self.certs.get_plutus_witnesses();
                let _ = self.certs.get_ref_inputs();
                let _ = self.certs.get_native_scripts();
                let _ = self.wdrs.build();
                let _ = self.wdrs.get_plutus_witnesses();
                let _ = self.wdrs.get_ref_inputs();
                let _ = self.mint.build();
                let _ = self.mint.get_plutus_witnesses();
                let _ = self.mint.get_ref_inputs();
                let _ = self.mint.get_native_scripts();
                let _ = self.votes.build();
                let _ = self.votes.get_plutus_witnesses();
                let _ = self.props.build();
                let _ = self.inb.inputs();
                let _ = self.inb.get_plutus_input_scripts();
                let _ = self.inb.get_native_input_scripts();
                let _ = self.inb.get_ref_inputs();
                // what a preview asks: the marginal fee of one more output / input (the builder works on copies of itself)
                let probe_out = csl::TransactionOutput::new(&self.w.address(&AddrSpec::Ent(Cred::Key(0))), &csl::Value::new(&bn(2_000_000)));
                let probe_in = self.w.utxos.iter().position(|u| matches!(u.addr.pay_cred(), Some(Cred::Key(_))) && !matches!(u.addr, AddrSpec::Byron(_) | AddrSpec::ByronPath(..))).map(|i| (self.w.address(&self.w.utxos[i].addr), self.w.input_of(&self.w.utxos[i]), self.w.value(self.w.utxos[i].coin, &self.w.utxos[i].assets)));
                let tx = &self.tx;
                let r = guard(|| {
                    let _ = tx.fee_for_output(&probe_out);
                    if let Some((a, i, v)) = &probe_in {
                        let _ = tx.fee_for_input(a, i, v);
                    }
                    for _ in 0..2 {
                        let _ = tx.min_fee();
                        let _ = tx.full_size();
                        let _ = tx.output_sizes();
                        let _ = tx.get_explicit_input();
                        let _ = tx.get_implicit_input();
                        let _ = tx.get_total_input();
                        let _ = tx.get_explicit_output();
                        let _ = tx.get_total_output();
                        let _ = tx.get_deposit();
                        let _ = tx.get_fee_if_set();
                        let _ = tx.get_reference_inputs();
                        let _ = tx.get_native_input_scripts();
                        let _ = tx.get_plutus_input_scripts();
                        let _ = tx.get_extra_witness_datums();
                        let _ = tx.get_auxiliary_data();
                        let _ = tx.get_mint();
                        let _ = tx.get_mint_scripts();
                        let _ = tx.build();
                        let _ = tx.build_tx();
                    }
                    Ok(())
                });
                match r {
                    Ok(()) => Res::Ok,
                    Err(r) => r,
                }
            }
            Op::ForkClone => {
                self.tx = self.tx.clone();
                self.inb = self.inb.clone();
                self.colb = self.colb.clone();
                self.certs = self.certs.clone();
                self.wdrs = self.wdrs.clone();
                self.mint = self.mint.clone();
                self.votes = self.votes.clone();
                self.props = self.props.clone();
                Res::Ok
            }
        }
    }

    fn cert_ok(&self, c: &CertSpec) -> bool {
        let d_ok = |d: &DRepSpec| match d {
            DRepSpec::Script(s) => self.script_ok(*s),
            _ => true,
        };
        match c {
            CertSpec::StakeReg(a) | CertSpec::StakeRegCoin(a, _) | CertSpec::StakeDereg(a) | CertSpec::StakeDeregCoin(a, _) | CertSpec::StakeDeleg(a, _) => self.cred_ok(a),
            CertSpec::PoolReg { reward, .. } => self.cred_ok(reward),
            CertSpec::MirCreds(_, v) => v.iter().all(|(c, _)| self.cred_ok(c)),
            CertSpec::CommitteeHotAuth(a, b) => self.cred_ok(a) && self.cred_ok(b),
            CertSpec::CommitteeColdResign(a, _) | CertSpec::DRepReg(a, ..) | CertSpec::DRepDereg(a, _) | CertSpec::DRepUpdate(a, _) | CertSpec::StakeRegDeleg(a, ..) => self.cred_ok(a),
            CertSpec::StakeVoteDeleg(a, _, d) | CertSpec::VoteDeleg(a, d) | CertSpec::VoteRegDeleg(a, d, _) | CertSpec::StakeVoteRegDeleg(a, _, d, _) => self.cred_ok(a) && d_ok(d),
            _ => true,
        }
    }
    fn proposal_ok(&self, p: &ProposalSpec) -> bool {
        match &p.action {
            ActionSpec::ParamChange { policy, .. } => policy.map_or(true, |s| self.script_ok(s)),
            ActionSpec::TreasuryWdr { to, policy } => policy.map_or(true, |s| self.script_ok(s)) && to.iter().all(|(c, _)| self.cred_ok(c)),
            ActionSpec::UpdateCommittee { remove, add, .. } => remove.iter().all(|c| self.cred_ok(c)) && add.iter().all(|(c, _)| self.cred_ok(c)),
            ActionSpec::NewConstitution { script, .. } => script.map_or(true, |s| self.script_ok(s)),
            _ => true,
        }
    }
}

/// Execute a scenario under an installed simulator; returns the history.
pub fn run(sc: &Scenario) -> History {
    let sim = Sim::install(&sc.rng, sc.hash_seed);
    let mut s = Session::new(sc);
    for (i, op) in sc.ops.iter().enumerate() {
        let r = s.apply(i, op, &sim);
        s.h.steps += 1;
        {
            let mut st = sim.st.borrow_mut();
            st.digest.u64(i as u64);
            st.digest.str(r.class());
            if let Res::Err(e) = &r {
                st.digest.str(e);
            }
        }
        s.h.results.push(r);
    }
    let mut h = s.h;
    for b in &h.built {
        sim.st.borrow_mut().digest.bytes(&b.bytes);
    }
    h.final_builder = Some(s.tx);
    h.draws = sim.draws();
    h.probes = sim.probes();
    h.digest = sim.digest();
    h.hash_keys = sim.hash_keys();
    drop(sim);
    h
}

//! Reference node: lenient Conway shapes and an executable subset of the UTXO/UTXOW rules,
//! working on bytes parsed by the harness reader and on the ground-truth world.
//! Shares no code with the library (see notes/ORACLE_SPEC.md).
use crate::cbor::{self, Kind, Node};
use crate::scn::Knobs;
use crate::world::*;
use num_bigint::BigInt;
use num_traits::{One, Zero};
use std::collections::{BTreeMap, BTreeSet};

pub struct TxView<'a> {
    pub bytes: &'a [u8],
    pub root: Node,
}

#[derive(Debug, Clone)]
pub struct OutView {
    pub addr: Vec<u8>,
    pub value: GVal,
    pub value_span: (usize, usize),
    pub span: (usize, usize),
    pub datum_hash: Option<Vec<u8>>,
    pub inline_datum: Option<(usize, usize)>,
    /// content of the #6.24 byte string of a script reference
    pub script_ref: Option<Vec<u8>>,
    pub map_form: bool,
    /// number of policies with an empty asset map / number of zero quantities (C03 builder clause)
    pub empty_policies: usize,
    pub zero_quantities: usize,
}

pub type Fail = String;

pub fn value_of(n: &Node) -> Result<(GVal, usize, usize), Fail> {
    let mut g = GVal::default();
    let mut empty_policies = 0;
    let mut zero_q = 0;
    match &n.kind {
        Kind::UInt(c) => g.coin = *c as i128,
        Kind::Array(a) if a.len() == 2 => {
            g.coin = a[0].as_u64().ok_or("value coin")? as i128;
            let ma = a[1].as_map().ok_or("multiasset not a map")?;
            for (p, assets) in ma {
                let pb = p.as_bytes().ok_or("policy not bytes")?;
                let am = assets.as_map().ok_or("assets not a map")?;
                if am.is_empty() {
                    empty_policies += 1;
                }
                for (name, q) in am {
                    let nb = name.as_bytes().ok_or("asset name not bytes")?;
                    let qv = q.as_i128().ok_or("quantity not int")?;
                    if qv == 0 {
                        zero_q += 1;
                    }
                    *g.assets.entry((pb.to_vec(), nb.to_vec())).or_insert(0) += qv;
                }
            }
        }
        _ => return Err("value shape".into()),
    }
    Ok((g, empty_policies, zero_q))
}

pub fn output_of(n: &Node) -> Result<OutView, Fail> {
    match &n.kind {
        Kind::Array(a) if a.len() == 2 || a.len() == 3 => {
            let (value, ep, zq) = value_of(&a[1])?;
            Ok(OutView {
                addr: a[0].as_bytes().ok_or("address not bytes")?.to_vec(),
                value,
                value_span: (a[1].start, a[1].end),
                span: (n.start, n.end),
                datum_hash: if a.len() == 3 { Some(a[2].as_bytes().ok_or("datum hash")?.to_vec()) } else { None },
                inline_datum: None,
                script_ref: None,
                map_form: false,
                empty_policies: ep,
                zero_quantities: zq,
            })
        }
        Kind::Map(_) => {
            let addr = n.get(0).ok_or("output without address")?.as_bytes().ok_or("address not bytes")?.to_vec();
            let vn = n.get(1).ok_or("output without value")?;
            let (value, ep, zq) = value_of(vn)?;
            let mut datum_hash = None;
            let mut inline_datum = None;
            if let Some(d) = n.get(2) {
                let a = d.as_array().ok_or("datum option not array")?;
                if a.len() != 2 {
                    return Err("datum option arity".into());
                }
                match a[0].as_u64() {
                    Some(0) => datum_hash = Some(a[1].as_bytes().ok_or("datum hash")?.to_vec()),
                    Some(1) => match &a[1].kind {
                        Kind::Tag(24, inner) => {
                            let b = inner.as_bytes().ok_or("inline datum not bytes")?;
                            // span of the embedded bytes inside the whole buffer: content is the tail of the inner node
                            let _ = b;
                            inline_datum = Some((inner.end - b.len(), inner.end));
                            if inner.indef {
                                inline_datum = None; // chunked wrapper: not contiguous; handled by callers through bytes
                            }
                        }
                        _ => return Err("inline datum not #6.24".into()),
                    },
                    _ => return Err("datum option tag".into()),
                }
            }
            let mut script_ref = None;
            if let Some(s) = n.get(3) {
                match &s.kind {
                    Kind::Tag(24, inner) => script_ref = Some(inner.as_bytes().ok_or("script ref not bytes")?.to_vec()),
                    _ => return Err("script ref not #6.24".into()),
                }
            }
            Ok(OutView { addr, value, value_span: (vn.start, vn.end), span: (n.start, n.end), datum_hash, inline_datum, script_ref, map_form: true, empty_policies: ep, zero_quantities: zq })
        }
        _ => Err("output shape".into()),
    }
}

#[derive(Debug, Clone, PartialEq, Eq, PartialOrd, Ord)]
pub enum CredV {
    Key(Vec<u8>),
    Script(Vec<u8>),
}

pub fn cred_of(n: &Node) -> Result<CredV, Fail> {
    let a = n.as_array().ok_or("credential not array")?;
    if a.len() != 2 {
        return Err("credential arity".into());
    }
    let h = a[1].as_bytes().ok_or("credential hash")?.to_vec();
    match a[0].as_u64() {
        Some(0) => Ok(CredV::Key(h)),
        Some(1) => Ok(CredV::Script(h)),
        _ => Err("credential tag".into()),
    }
}

/// credential of a 29-byte reward account
pub fn reward_cred(b: &[u8]) -> Result<CredV, Fail> {
    if b.len() != 29 {
        return Err(format!("reward account of {} bytes", b.len()));
    }
    match b[0] >> 4 {
        0b1110 => Ok(CredV::Key(b[1..].to_vec())),
        0b1111 => Ok(CredV::Script(b[1..].to_vec())),
        _ => Err("reward account header".into()),
    }
}

/// payment credential of a Shelley address, or None for Byron
pub fn payment_cred(addr: &[u8]) -> Result<Option<CredV>, Fail> {
    if addr.is_empty() {
        return Err("empty address".into());
    }
    let t = addr[0] >> 4;
    match t {
        0..=7 => {
            if addr.len() < 29 {
                return Err("short address".into());
            }
            let h = addr[1..29].to_vec();
            Ok(Some(if t & 1 == 0 { CredV::Key(h) } else { CredV::Script(h) }))
        }
        8 => Ok(None),
        _ => Err("address type cannot own a UTxO".into()),
    }
}

#[derive(Debug, Clone, Default)]
pub struct CertFacts {
    pub deposit: BigInt,
    pub refund: BigInt,
    pub keys: Vec<Vec<u8>>,
    pub scripts: Vec<Vec<u8>>,
    pub tag: u64,
}

pub fn cert_facts(n: &Node, k: &Knobs) -> Result<CertFacts, Fail> {
    let a = n.as_array().ok_or("cert not array")?;
    let tag = a.get(0).and_then(|x| x.as_u64()).ok_or("cert tag")?;
    let mut f = CertFacts { tag, ..Default::default() };
    let need = |f: &mut CertFacts, c: CredV| match c {
        CredV::Key(h) => f.keys.push(h),
        CredV::Script(h) => f.scripts.push(h),
    };
    let coin = |i: usize| -> Result<BigInt, Fail> { Ok(BigInt::from(a.get(i).and_then(|x| x.as_u64()).ok_or("cert coin")?)) };
    let arity = |n: usize| -> Result<(), Fail> {
        if a.len() != n {
            Err(format!("cert tag {} arity {} (want {})", tag, a.len(), n))
        } else {
            Ok(())
        }
    };
    match tag {
        0 => {
            arity(2)?;
            f.deposit = BigInt::from(k.key_deposit);
            let _ = cred_of(&a[1])?;
        }
        1 => {
            arity(2)?;
            f.refund = BigInt::from(k.key_deposit);
            need(&mut f, cred_of(&a[1])?);
        }
        2 => {
            arity(3)?;
            need(&mut f, cred_of(&a[1])?);
        }
        3 => {
            arity(10)?;
            f.deposit = BigInt::from(k.pool_deposit);
            f.keys.push(a[1].as_bytes().ok_or("operator")?.to_vec());
            for o in a[7].set_items().ok_or("owners")? {
                f.keys.push(o.as_bytes().ok_or("owner")?.to_vec());
            }
        }
        4 => {
            arity(3)?;
            f.keys.push(a[1].as_bytes().ok_or("pool")?.to_vec());
        }
        5 => {
            arity(4)?;
            // ledger: genesis key; library: delegate. One 28-byte hash either way (not judged).
            f.keys.push(a[2].as_bytes().ok_or("delegate")?.to_vec());
        }
        6 => {
            arity(2)?;
        }
        7 => {
            arity(3)?;
            f.deposit = coin(2)?;
            need(&mut f, cred_of(&a[1])?);
        }
        8 => {
            arity(3)?;
            f.refund = coin(2)?;
            need(&mut f, cred_of(&a[1])?);
        }
        9 => {
            arity(3)?;
            need(&mut f, cred_of(&a[1])?);
        }
        10 => {
            arity(4)?;
            need(&mut f, cred_of(&a[1])?);
        }
        11 => {
            arity(4)?;
            f.deposit = coin(3)?;
            need(&mut f, cred_of(&a[1])?);
        }
        12 => {
            arity(4)?;
            f.deposit = coin(3)?;
            need(&mut f, cred_of(&a[1])?);
        }
        13 => {
            arity(5)?;
            f.deposit = coin(4)?;
            need(&mut f, cred_of(&a[1])?);
        }
        14 => {
            arity(3)?;
            need(&mut f, cred_of(&a[1])?);
        }
        15 => {
            arity(3)?;
            need(&mut f, cred_of(&a[1])?);
        }
        16 => {
            arity(4)?;
            f.deposit = coin(2)?;
            need(&mut f, cred_of(&a[1])?);
        }
        17 => {
            arity(3)?;
            f.refund = coin(2)?;
            need(&mut f, cred_of(&a[1])?);
        }
        18 => {
            arity(3)?;
            need(&mut f, cred_of(&a[1])?);
        }
        _ => return Err(format!("unknown cert tag {}", tag)),
    }
    Ok(f)
}

#[derive(Debug, Clone)]
pub struct Redeemer {
    pub tag: u64,
    pub index: u64,
    pub data_span: (usize, usize),
    pub mem: u64,
    pub steps: u64,
}

impl<'a> TxView<'a> {
    pub fn parse(bytes: &'a [u8]) -> Result<TxView<'a>, Fail> {
        let root = cbor::parse(bytes).map_err(|e| format!("cbor: {}", e.0))?;
        {
            let a = root.as_array().ok_or("transaction not an array")?;
            if a.len() != 4 {
                return Err(format!("transaction arity {}", a.len()));
            }
            a[0].as_map().ok_or("body not a map")?;
            a[1].as_map().ok_or("witness set not a map")?;
            a[2].as_bool().ok_or("is_valid not bool")?;
        }
        Ok(TxView { bytes, root })
    }
    pub fn body(&self) -> &Node {
        &self.root.as_array().unwrap()[0]
    }
    pub fn ws(&self) -> &Node {
        &self.root.as_array().unwrap()[1]
    }
    pub fn aux(&self) -> &Node {
        &self.root.as_array().unwrap()[3]
    }
    pub fn span(&self, n: &Node) -> &[u8] {
        &self.bytes[n.start..n.end]
    }
    pub fn body_hash(&self) -> [u8; 32] {
        blake2b256(self.span(self.body()))
    }

    pub fn inputs_of(&self, key: u64) -> Result<Vec<(Vec<u8>, u64)>, Fail> {
        let mut v = vec![];
        if let Some(n) = self.body().get(key) {
            for i in n.set_items().ok_or("input set shape")? {
                let a = i.as_array().ok_or("txin not array")?;
                if a.len() != 2 {
                    return Err("txin arity".into());
                }
                v.push((a[0].as_bytes().ok_or("txin hash")?.to_vec(), a[1].as_u64().ok_or("txin index")?));
            }
        }
        Ok(v)
    }
    pub fn outputs(&self) -> Result<Vec<OutView>, Fail> {
        let mut v = vec![];
        if let Some(n) = self.body().get(1) {
            for o in n.as_array().ok_or("outputs not array")? {
                v.push(output_of(o)?);
            }
        }
        Ok(v)
    }
    pub fn fee(&self) -> Result<u64, Fail> {
        self.body().get(2).and_then(|n| n.as_u64()).ok_or("fee missing".into())
    }
    pub fn certs(&self) -> Result<Vec<&Node>, Fail> {
        match self.body().get(4) {
            None => Ok(vec![]),
            Some(n) => Ok(n.set_items().ok_or("certs shape")?.iter().collect()),
        }
    }
    /// withdrawals in emitted order: (account bytes, coin)
    pub fn withdrawals(&self) -> Result<Vec<(Vec<u8>, u64)>, Fail> {
        let mut v = vec![];
        if let Some(n) = self.body().get(5) {
            for (k, c) in n.as_map().ok_or("withdrawals not map")? {
                v.push((k.as_bytes().ok_or("reward account")?.to_vec(), c.as_u64().ok_or("withdrawal coin")?));
            }
        }
        Ok(v)
    }
    pub fn mint(&self) -> Result<GVal, Fail> {
        let mut g = GVal::default();
        if let Some(n) = self.body().get(9) {
            for (p, assets) in n.as_map().ok_or("mint not map")? {
                let pb = p.as_bytes().ok_or("mint policy")?;
                for (name, q) in assets.as_map().ok_or("mint assets")? {
                    *g.assets.entry((pb.to_vec(), name.as_bytes().ok_or("mint name")?.to_vec())).or_insert(0) += q.as_i128().ok_or("mint qty")?;
                }
            }
        }
        Ok(g)
    }
    pub fn mint_policies(&self) -> Result<Vec<Vec<u8>>, Fail> {
        let mut v = vec![];
        if let Some(n) = self.body().get(9) {
            for (p, _) in n.as_map().ok_or("mint not map")? {
                v.push(p.as_bytes().ok_or("mint policy")?.to_vec());
            }
        }
        Ok(v)
    }
    /// voters in emitted order as raw [tag, hash] + their node
    pub fn voters(&self) -> Result<Vec<(u64, Vec<u8>)>, Fail> {
        let mut v = vec![];
        if let Some(n) = self.body().get(19) {
            for (k, _) in n.as_map().ok_or("voting procedures not map")? {
                let a = k.as_array().ok_or("voter not array")?;
                if a.len() != 2 {
                    return Err("voter arity".into());
                }
                v.push((a[0].as_u64().ok_or("voter tag")?, a[1].as_bytes().ok_or("voter hash")?.to_vec()));
            }
        }
        Ok(v)
    }
    pub fn proposals(&self) -> Result<Vec<&Node>, Fail> {
        match self.body().get(20) {
            None => Ok(vec![]),
            Some(n) => Ok(n.set_items().ok_or("proposals shape")?.iter().collect()),
        }
    }
    pub fn redeemers(&self) -> Result<Vec<Redeemer>, Fail> {
        let mut v = vec![];
        if let Some(n) = self.ws().get(5) {
            match &n.kind {
                Kind::Array(items) => {
                    for r in items {
                        let a = r.as_array().ok_or("redeemer not array")?;
                        if a.len() != 4 {
                            return Err("redeemer arity".into());
                        }
                        let ex = a[3].as_array().ok_or("ex units")?;
                        v.push(Redeemer { tag: a[0].as_u64().ok_or("tag")?, index: a[1].as_u64().ok_or("index")?, data_span: (a[2].start, a[2].end), mem: ex[0].as_u64().ok_or("mem")?, steps: ex[1].as_u64().ok_or("steps")? });
                    }
                }
                Kind::Map(items) => {
                    for (k, val) in items {
                        let ka = k.as_array().ok_or("redeemer key")?;
                        let va = val.as_array().ok_or("redeemer value")?;
                        if ka.len() != 2 || va.len() != 2 {
                            return Err("redeemer map entry arity".into());
                        }
                        let ex = va[1].as_array().ok_or("ex units")?;
                        v.push(Redeemer { tag: ka[0].as_u64().ok_or("tag")?, index: ka[1].as_u64().ok_or("index")?, data_span: (va[0].start, va[0].end), mem: ex[0].as_u64().ok_or("mem")?, steps: ex[1].as_u64().ok_or("steps")? });
                    }
                }
                _ => return Err("redeemers shape".into()),
            }
        }
        Ok(v)
    }
}

// ------------------------------------------------------------------ ground truth context

pub struct Ctx<'a> {
    pub w: &'a World,
    pub k: &'a Knobs,
    /// reference inputs whose reference script the history never declared to the builder (listed with
    /// the size-less `add_reference_input` only): the builder cannot be blamed for not charging them
    pub undeclared_ref_scripts: BTreeSet<(Vec<u8>, u64)>,
}

impl<'a> Ctx<'a> {
    pub fn utxo(&self, op: &(Vec<u8>, u64)) -> Option<&'a Utxo> {
        self.w.find_outpoint(&op.0, op.1).map(|i| &self.w.utxos[i])
    }
    pub fn script_by_hash(&self, h: &[u8]) -> Option<(ScriptId, &'a ScriptSpec)> {
        for (i, s) in self.w.scripts.iter().enumerate() {
            if self.w.policy_bytes(i as u16)[..] == *h {
                return Some((i as u16, s));
            }
        }
        None
    }
}

// ------------------------------------------------------------------ rules

/// Preservation of value as a signed equation per asset class. Ok(()) or the imbalance.
pub fn preservation(tx: &TxView, cx: &Ctx) -> Result<(), Fail> {
    let mut lhs = GVal::default();
    for i in tx.inputs_of(0)? {
        let u = cx.utxo(&i).ok_or_else(|| format!("input {}#{} unknown to the world", hex::encode(&i.0[..4]), i.1))?;
        lhs.add(&GVal::of_utxo(cx.w, u));
    }
    for (_, c) in tx.withdrawals()? {
        lhs.coin += c as i128;
    }
    let mut rhs = GVal::default();
    for o in tx.outputs()? {
        rhs.add(&o.value);
    }
    rhs.coin += tx.fee()? as i128;
    let mut dep = BigInt::zero();
    let mut refu = BigInt::zero();
    for c in tx.certs()? {
        let f = cert_facts(c, cx.k)?;
        dep += f.deposit;
        refu += f.refund;
    }
    for p in tx.proposals()? {
        let a = p.as_array().ok_or("proposal not array")?;
        dep += BigInt::from(a.get(0).and_then(|x| x.as_u64()).ok_or("proposal deposit")?);
    }
    if let Some(d) = tx.body().get(22) {
        rhs.coin += d.as_u64().ok_or("donation")? as i128;
    }
    let m = tx.mint()?;
    // mint may be negative: put it on the left as a signed quantity
    lhs.add(&m);
    let mut l = BigInt::from(lhs.coin) + refu;
    let r = BigInt::from(rhs.coin) + dep;
    l -= r;
    let mut diff = lhs.clone();
    diff.sub(&rhs);
    diff.normalize();
    if !l.is_zero() {
        return Err(format!("lovelace: consumed - produced = {}", l));
    }
    if let Some((k, v)) = diff.assets.iter().next() {
        return Err(format!("asset {}.{}: consumed - produced = {}", hex::encode(&k.0[..4]), hex::encode(&k.1), v));
    }
    Ok(())
}

/// tier-by-tier reference script fee with exact rationals
pub fn ref_script_fee(total: u64, price: (u64, u64)) -> BigInt {
    // price = num/den per byte; multiplier 6/5 per 25600-byte tier
    let mut acc_n = BigInt::zero();
    let mut acc_d = BigInt::one();
    let mut p_n = BigInt::from(price.0);
    let mut p_d = BigInt::from(price.1.max(1));
    let mut s = total;
    loop {
        let take = s.min(25600);
        // acc += take * p
        acc_n = acc_n * &p_d + BigInt::from(take) * &p_n * &acc_d;
        acc_d = acc_d * &p_d;
        let g = num_integer::Integer::gcd(&acc_n, &acc_d);
        if !g.is_zero() {
            acc_n /= &g;
            acc_d /= &g;
        }
        if s <= 25600 {
            break;
        }
        s -= 25600;
        p_n *= 6;
        p_d *= 5;
    }
    // floor
    num_integer::Integer::div_floor(&acc_n, &acc_d)
}

/// smallest defensible size of a reference script given the content of its #6.24 wrapper
pub fn ref_script_size(content: &[u8]) -> u64 {
    match cbor::parse(content) {
        Ok(n) => match n.as_array() {
            Some(a) if a.len() == 2 => match a[0].as_u64() {
                Some(0) => a[1].len() as u64,
                _ => a[1].as_bytes().map_or(content.len() as u64, |b| b.len() as u64),
            },
            _ => content.len() as u64,
        },
        Err(_) => content.len() as u64,
    }
}

/// Minimum fee of `tx` (signed bytes) under the node's rule.
pub fn min_fee(tx: &TxView, cx: &Ctx) -> Result<BigInt, Fail> {
    let k = cx.k;
    let mut fee = BigInt::from(k.fee_a) * BigInt::from(tx.bytes.len()) + BigInt::from(k.fee_b);
    let reds = tx.redeemers()?;
    if !reds.is_empty() {
        if let Some((mn, md, sn, sd)) = k.ex_prices {
            let mem: BigInt = reds.iter().map(|r| BigInt::from(r.mem)).sum();
            let steps: BigInt = reds.iter().map(|r| BigInt::from(r.steps)).sum();
            // ceil(mem*mn/md + steps*sn/sd)
            let num = mem * mn * sd + steps * sn * md;
            let den = BigInt::from(md) * sd;
            let c = (num.clone() + &den - 1) / &den;
            fee += c;
        }
    }
    if let Some(price) = k.ref_script_price {
        let mut total = 0u64;
        let mut ins = tx.inputs_of(0)?;
        ins.extend(tx.inputs_of(18)?);
        for i in ins {
            if cx.undeclared_ref_scripts.contains(&i) {
                continue;
            }
            if let Some(u) = cx.utxo(&i) {
                if let Some(s) = u.script_ref {
                    total += match &cx.w.scripts[s as usize] {
                        ScriptSpec::Plutus { len, .. } => *len as u64,
                        ScriptSpec::Native(ns) => {
                            // CBOR of the native script, by the harness writer
                            native_script_cbor(ns).len() as u64
                        }
                    };
                }
            }
        }
        fee += ref_script_fee(total, price);
    }
    Ok(fee)
}

pub fn native_script_cbor(ns: &Ns) -> Vec<u8> {
    let mut o = vec![];
    fn go(ns: &Ns, o: &mut Vec<u8>) {
        match ns {
            Ns::Pk(k) => {
                cbor::w_array(o, 2);
                cbor::w_uint(o, 0);
                cbor::w_bytes(o, &key(*k).hash_bytes);
            }
            Ns::All(v) | Ns::Any(v) => {
                cbor::w_array(o, 2);
                cbor::w_uint(o, if matches!(ns, Ns::All(_)) { 1 } else { 2 });
                cbor::w_array(o, v.len() as u64);
                for x in v {
                    go(x, o);
                }
            }
            Ns::NofK(n, v) => {
                cbor::w_array(o, 3);
                cbor::w_uint(o, 3);
                cbor::w_uint(o, *n as u64);
                cbor::w_array(o, v.len() as u64);
                for x in v {
                    go(x, o);
                }
            }
            Ns::After(s) => {
                cbor::w_array(o, 2);
                cbor::w_uint(o, 4);
                cbor::w_uint(o, *s);
            }
            Ns::Before(s) => {
                cbor::w_array(o, 2);
                cbor::w_uint(o, 5);
                cbor::w_uint(o, *s);
            }
        }
    }
    go(ns, &mut o);
    o
}

/// independent script hash: blake2b224(prefix || body)
pub fn script_hash_of(spec: &ScriptSpec) -> [u8; 28] {
    match spec {
        ScriptSpec::Native(ns) => {
            let mut d = vec![0u8];
            d.extend(native_script_cbor(ns));
            blake2b224(&d)
        }
        ScriptSpec::Plutus { lang, len, fill } => {
            let mut d = vec![*lang];
            d.extend(plutus_bytes(*len, *fill));
            blake2b224(&d)
        }
    }
}

/// min-ADA and value-size rule for one output node
pub fn output_rules(tx_bytes: &[u8], o: &OutView, k: &Knobs) -> Result<(), Fail> {
    let size = (o.span.1 - o.span.0) as i128;
    let need = k.cpb as i128 * (160 + size);
    if o.value.coin < need {
        return Err(format!("min-ADA: coin {} < {} x (160 + {}) = {}", o.value.coin, k.cpb, size, need));
    }
    let vs = o.value_span.1 - o.value_span.0;
    if vs > k.max_value_size as usize {
        return Err(format!("value size {} > max_value_size {}", vs, k.max_value_size));
    }
    let _ = tx_bytes;
    Ok(())
}

// ------------------------------------------------------------------ witnesses

#[derive(Debug, Default, Clone)]
pub struct Required {
    pub keys: BTreeSet<Vec<u8>>,
    pub byron: BTreeSet<Vec<u8>>,
    /// script hash -> purposes (for messages)
    pub scripts: BTreeMap<Vec<u8>, Vec<String>>,
    /// script-locked inputs: (outpoint, script hash)
    pub script_inputs: Vec<((Vec<u8>, u64), Vec<u8>)>,
}

/// what the UTXOW rule needs, from the emitted body and the world (no declarations yet)
pub fn required(tx: &TxView, cx: &Ctx) -> Result<Required, Fail> {
    let mut r = Required::default();
    let mut note = |r: &mut Required, h: Vec<u8>, why: String| r.scripts.entry(h).or_default().push(why);
    for (key, what) in [(0u64, "input"), (13u64, "collateral")] {
        for i in tx.inputs_of(key)? {
            let u = cx.utxo(&i).ok_or_else(|| format!("{} {}#{} unknown to the world", what, hex::encode(&i.0[..4]), i.1))?;
            let addr = cx.w.address(&u.addr).to_bytes();
            match payment_cred(&addr)? {
                None => {
                    r.byron.insert(addr);
                }
                Some(CredV::Key(h)) => {
                    r.keys.insert(h);
                }
                Some(CredV::Script(h)) => {
                    if key == 0 {
                        r.script_inputs.push((i.clone(), h.clone()));
                    }
                    note(&mut r, h, format!("{} {}#{}", what, hex::encode(&i.0[..4]), i.1));
                }
            }
        }
    }
    for (acct, _) in tx.withdrawals()? {
        match reward_cred(&acct)? {
            CredV::Key(h) => {
                r.keys.insert(h);
            }
            CredV::Script(h) => note(&mut r, h, "withdrawal".into()),
        }
    }
    for c in tx.certs()? {
        let f = cert_facts(c, cx.k)?;
        for kh in f.keys {
            r.keys.insert(kh);
        }
        for s in f.scripts {
            note(&mut r, s, format!("cert tag {}", f.tag));
        }
    }
    for (t, h) in tx.voters()? {
        match t {
            0 | 2 | 4 => {
                r.keys.insert(h);
            }
            1 | 3 => note(&mut r, h, "voter".into()),
            _ => return Err("voter tag".into()),
        }
    }
    for p in tx.mint_policies()? {
        note(&mut r, p, "mint".into());
    }
    for p in tx.proposals()? {
        let a = p.as_array().ok_or("proposal")?;
        let act = a.get(2).and_then(|x| x.as_array()).ok_or("gov action")?;
        match act.get(0).and_then(|x| x.as_u64()) {
            Some(0) => {
                if let Some(h) = act.get(3).and_then(|x| x.as_bytes()) {
                    note(&mut r, h.to_vec(), "proposal policy".into());
                }
            }
            Some(2) => {
                if let Some(h) = act.get(2).and_then(|x| x.as_bytes()) {
                    note(&mut r, h.to_vec(), "treasury withdrawal policy".into());
                }
            }
            _ => {}
        }
    }
    if let Some(n) = tx.body().get(14) {
        for kh in n.set_items().ok_or("required signers")? {
            r.keys.insert(kh.as_bytes().ok_or("required signer")?.to_vec());
        }
    }
    Ok(r)
}

/// scripts provided by the witness set: hash -> count
pub fn witness_scripts(tx: &TxView) -> Result<BTreeMap<Vec<u8>, usize>, Fail> {
    let mut m: BTreeMap<Vec<u8>, usize> = BTreeMap::new();
    if let Some(n) = tx.ws().get(1) {
        for s in n.set_items().ok_or("native scripts")? {
            let mut d = vec![0u8];
            d.extend_from_slice(tx.span(s));
            *m.entry(blake2b224(&d).to_vec()).or_insert(0) += 1;
        }
    }
    for (key, prefix) in [(3u64, 1u8), (6, 2), (7, 3)] {
        if let Some(n) = tx.ws().get(key) {
            for s in n.set_items().ok_or("plutus scripts")? {
                let mut d = vec![prefix];
                d.extend_from_slice(s.as_bytes().ok_or("plutus script bytes")?);
                *m.entry(blake2b224(&d).to_vec()).or_insert(0) += 1;
            }
        }
    }
    Ok(m)
}

/// scripts available by reference (inputs and reference inputs of the body): hash -> providing outpoints
pub fn reference_scripts(tx: &TxView, cx: &Ctx) -> Result<BTreeMap<Vec<u8>, Vec<(Vec<u8>, u64)>>, Fail> {
    let mut m: BTreeMap<Vec<u8>, Vec<(Vec<u8>, u64)>> = BTreeMap::new();
    let mut ins = tx.inputs_of(18)?;
    ins.extend(tx.inputs_of(0)?);
    for i in ins {
        if let Some(u) = cx.utxo(&i) {
            if let Some(s) = u.script_ref {
                m.entry(script_hash_of(&cx.w.scripts[s as usize]).to_vec()).or_default().push(i.clone());
            }
        }
    }
    Ok(m)
}

/// rank of an item in ledger order / raw byte order
pub fn sorted_inputs(tx: &TxView) -> Result<Vec<(Vec<u8>, u64)>, Fail> {
    let mut v = tx.inputs_of(0)?;
    v.sort();
    Ok(v)
}

/// language views (canonical map) for the languages in use; cost model values supplied by the harness
pub fn language_views(langs: &BTreeSet<u8>, cost: &dyn Fn(u8) -> Vec<i64>) -> Vec<u8> {
    // keys: V1 -> bytes(00) i.e. 41 00 ; V2 -> 01 ; V3 -> 02. canonical: shorter first, then bytewise
    let mut entries: Vec<(Vec<u8>, Vec<u8>)> = vec![];
    for l in langs {
        let vals = cost(*l);
        match l {
            1 => {
                let mut inner = vec![0x9f];
                for v in &vals {
                    cbor::w_int(&mut inner, *v as i128);
                }
                inner.push(0xff);
                let mut val = vec![];
                cbor::w_bytes(&mut val, &inner);
                entries.push((vec![0x41, 0x00], val));
            }
            _ => {
                let mut val = vec![];
                cbor::w_array(&mut val, vals.len() as u64);
                for v in &vals {
                    cbor::w_int(&mut val, *v as i128);
                }
                entries.push((vec![l - 1], val));
            }
        }
    }
    entries.sort_by(|a, b| a.0.len().cmp(&b.0.len()).then(a.0.cmp(&b.0)));
    let mut out = vec![];
    cbor::w_map(&mut out, entries.len() as u64);
    for (k, v) in entries {
        out.extend(k);
        out.extend(v);
    }
    out
}

#[cfg(test)]
mod tests {
    use super::*;
    #[test]
    fn ref_fee_matches_known_examples() {
        // from the ledger's tests: 15 per byte
        assert_eq!(ref_script_fee(0, (15, 1)), BigInt::from(0));
        assert_eq!(ref_script_fee(25600, (15, 1)), BigInt::from(384000));
        assert_eq!(ref_script_fee(25601, (15, 1)), BigInt::from(384018));
        assert_eq!(ref_script_fee(51200, (15, 1)), BigInt::from(844800));
    }
}

//! The simulator side of the seams in `/repo/rust/src/verif_hooks.rs`:
//! answers every library RNG draw, keys every hash container, counts probes.
use crate::prng::{Digest, Rng};
use cardano_serialization_lib::verif_hooks as vh;
use serde::{Deserialize, Serialize};
use std::cell::RefCell;
use std::collections::BTreeMap;
use std::rc::Rc;

#[derive(Serialize, Deserialize, Clone, Copy, Debug, PartialEq, Eq, Hash, PartialOrd, Ord)]
pub enum Sampler {
    Uniform,
    First,
    Last,
    Alternate,
    RepeatPrev,
    LowBias,
    HighBias,
    Mixed,
}

pub const SAMPLERS: [Sampler; 8] = [
    Sampler::Uniform,
    Sampler::First,
    Sampler::Last,
    Sampler::Alternate,
    Sampler::RepeatPrev,
    Sampler::LowBias,
    Sampler::HighBias,
    Sampler::Mixed,
];

/// How library RNG draws are answered in one run.
#[derive(Serialize, Deserialize, Clone, Debug)]
pub struct RngPlan {
    pub sampler: Sampler,
    pub seed: u64,
    /// explicit answers (replay / shrinking): positional, `k mod n` on mismatch, 0 when exhausted
    #[serde(default, skip_serializing_if = "Option::is_none")]
    pub forced: Option<Vec<(u32, u32)>>,
}

#[derive(Clone, Debug, PartialEq)]
pub enum Ev {
    Draw(u32, u32),
    HashKey,
    Probe(&'static str, u64),
}

pub struct State {
    plan: RngPlan,
    rng: Rng,
    pos: usize,
    prev: usize,
    flip: bool,
    hash: Rng,
    pub draws: Vec<(u32, u32)>,
    pub hash_keys: u64,
    pub probes: BTreeMap<&'static str, u64>,
    pub events: Vec<Ev>,
    pub digest: Digest,
    pub record_events: bool,
}

impl State {
    fn answer(&mut self, n: usize) -> usize {
        if n == 0 {
            return 0;
        }
        let k = if let Some(f) = &self.plan.forced {
            let k = if self.pos < f.len() { f[self.pos].1 as usize % n } else { 0 };
            self.pos += 1;
            k
        } else {
            let mode = match self.plan.sampler {
                Sampler::Mixed => SAMPLERS[self.rng.usize_below(7)],
                m => m,
            };
            match mode {
                Sampler::Uniform | Sampler::Mixed => self.rng.usize_below(n),
                Sampler::First => 0,
                Sampler::Last => n - 1,
                Sampler::Alternate => {
                    self.flip = !self.flip;
                    if self.flip {
                        0
                    } else {
                        n - 1
                    }
                }
                Sampler::RepeatPrev => {
                    if self.rng.chance(1, 4) {
                        self.rng.usize_below(n)
                    } else {
                        self.prev % n
                    }
                }
                Sampler::LowBias => {
                    let a = self.rng.usize_below(n);
                    let b = self.rng.usize_below(n);
                    a.min(b)
                }
                Sampler::HighBias => {
                    let a = self.rng.usize_below(n);
                    let b = self.rng.usize_below(n);
                    a.max(b)
                }
            }
        };
        self.prev = k;
        self.draws.push((n as u32, k as u32));
        self.digest.u64(0xD0 ^ ((n as u64) << 32) ^ k as u64);
        if self.record_events {
            self.events.push(Ev::Draw(n as u32, k as u32));
        }
        k
    }
}

struct Backend(Rc<RefCell<State>>);

impl vh::SimBackend for Backend {
    fn draw(&mut self, n: usize) -> usize {
        self.0.borrow_mut().answer(n)
    }
    fn bits(&mut self) -> u64 {
        let mut s = self.0.borrow_mut();
        let x = s.rng.next();
        s.digest.u64(0xB1 ^ x);
        x
    }
    fn hash_key(&mut self) -> (u64, u64) {
        let mut s = self.0.borrow_mut();
        s.hash_keys += 1;
        if s.record_events {
            s.events.push(Ev::HashKey);
        }
        (s.hash.next(), s.hash.next())
    }
    fn probe(&mut self, id: &'static str, val: u64) {
        let mut s = self.0.borrow_mut();
        *s.probes.entry(id).or_insert(0) += 1;
        s.digest.str(id);
        s.digest.u64(val);
        if s.record_events {
            s.events.push(Ev::Probe(id, val));
        }
    }
}

/// Handle on the installed simulator of this thread. Dropping it uninstalls the backend.
pub struct Sim {
    pub st: Rc<RefCell<State>>,
}

impl Sim {
    pub fn install(plan: &RngPlan, hash_seed: u64) -> Sim {
        let st = Rc::new(RefCell::new(State {
            plan: plan.clone(),
            rng: Rng::stream(plan.seed, 0x524e47),
            pos: 0,
            prev: 0,
            flip: false,
            hash: Rng::stream(hash_seed, 0x48415348),
            draws: Vec::new(),
            hash_keys: 0,
            probes: BTreeMap::new(),
            events: Vec::new(),
            digest: Digest::new(),
            record_events: true,
        }));
        vh::install(Box::new(Backend(st.clone())));
        Sim { st }
    }
    /// re-key the hash stream (used by "same history under K hash orders")
    pub fn rekey_hash(&self, hash_seed: u64) {
        self.st.borrow_mut().hash = Rng::stream(hash_seed, 0x48415348);
    }
    pub fn draws(&self) -> Vec<(u32, u32)> {
        self.st.borrow().draws.clone()
    }
    pub fn n_draws(&self) -> usize {
        self.st.borrow().draws.len()
    }
    pub fn probe(&self, id: &str) -> u64 {
        self.st.borrow().probes.iter().find(|(k, _)| **k == id).map(|(_, v)| *v).unwrap_or(0)
    }
    pub fn probes(&self) -> BTreeMap<&'static str, u64> {
        self.st.borrow().probes.clone()
    }
    pub fn events_len(&self) -> usize {
        self.st.borrow().events.len()
    }
    pub fn events_from(&self, from: usize) -> Vec<Ev> {
        self.st.borrow().events[from..].to_vec()
    }
    pub fn digest(&self) -> u64 {
        self.st.borrow().digest.0
    }
    pub fn hash_keys(&self) -> u64 {
        self.st.borrow().hash_keys
    }
}

impl Drop for Sim {
    fn drop(&mut self) {
        let _ = vh::uninstall();
    }
}

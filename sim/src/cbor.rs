//! Independent CBOR reader (tree with byte spans and encoding facts) and writer
//! (with controllable encoding choices). Shares no code with the library or `cbor_event`.
use crate::prng::Rng;

#[derive(Clone, Debug, PartialEq)]
pub enum Kind {
    UInt(u64),
    /// value is -1 - n
    NInt(u64),
    Bytes(Vec<u8>),
    Text(Vec<u8>),
    Array(Vec<Node>),
    Map(Vec<(Node, Node)>),
    Tag(u64, Box<Node>),
    /// simple values: 20 false, 21 true, 22 null, 23 undefined, others
    Simple(u8),
    Float(u64, u8),
}

#[derive(Clone, Debug, PartialEq)]
pub struct Node {
    pub kind: Kind,
    pub start: usize,
    pub end: usize,
    /// the head (major type + argument) used the shortest form
    pub minimal: bool,
    /// indefinite-length container / chunked string
    pub indef: bool,
    /// sizes of the chunks of an indefinite string
    pub chunks: Vec<usize>,
}

#[derive(Debug, Clone)]
pub struct CborError(pub String);

pub struct Reader<'a> {
    b: &'a [u8],
    p: usize,
    depth: usize,
}

fn err<T>(s: &str, p: usize) -> Result<T, CborError> {
    Err(CborError(format!("{} at {}", s, p)))
}

impl<'a> Reader<'a> {
    pub fn new(b: &'a [u8]) -> Self {
        Reader { b, p: 0, depth: 0 }
    }
    fn byte(&mut self) -> Result<u8, CborError> {
        if self.p >= self.b.len() {
            return err("eof", self.p);
        }
        let x = self.b[self.p];
        self.p += 1;
        Ok(x)
    }
    fn take(&mut self, n: usize) -> Result<&'a [u8], CborError> {
        if n > self.b.len() - self.p {
            return err("eof in payload", self.p);
        }
        let s = &self.b[self.p..self.p + n];
        self.p += n;
        Ok(s)
    }
    /// returns (argument, minimal, indefinite)
    fn arg(&mut self, info: u8) -> Result<(u64, bool, bool), CborError> {
        match info {
            0..=23 => Ok((info as u64, true, false)),
            24 => {
                let v = self.byte()? as u64;
                Ok((v, v >= 24, false))
            }
            25 => {
                let s = self.take(2)?;
                let v = u16::from_be_bytes([s[0], s[1]]) as u64;
                Ok((v, v > 0xff, false))
            }
            26 => {
                let s = self.take(4)?;
                let v = u32::from_be_bytes([s[0], s[1], s[2], s[3]]) as u64;
                Ok((v, v > 0xffff, false))
            }
            27 => {
                let s = self.take(8)?;
                let mut a = [0u8; 8];
                a.copy_from_slice(s);
                let v = u64::from_be_bytes(a);
                Ok((v, v > 0xffff_ffff, false))
            }
            31 => Ok((0, true, true)),
            _ => err("reserved additional info", self.p),
        }
    }

    pub fn node(&mut self) -> Result<Node, CborError> {
        self.depth += 1;
        if self.depth > 512 {
            return err("nesting too deep", self.p);
        }
        let start = self.p;
        let ib = self.byte()?;
        let major = ib >> 5;
        let info = ib & 0x1f;
        let r = match major {
            0 => {
                let (v, min, indef) = self.arg(info)?;
                if indef {
                    return err("indefinite uint", start);
                }
                Node { kind: Kind::UInt(v), start, end: self.p, minimal: min, indef: false, chunks: vec![] }
            }
            1 => {
                let (v, min, indef) = self.arg(info)?;
                if indef {
                    return err("indefinite nint", start);
                }
                Node { kind: Kind::NInt(v), start, end: self.p, minimal: min, indef: false, chunks: vec![] }
            }
            2 | 3 => {
                let (v, min, indef) = self.arg(info)?;
                let mut data = Vec::new();
                let mut chunks = Vec::new();
                if indef {
                    loop {
                        if self.p >= self.b.len() {
                            return err("eof in chunked string", self.p);
                        }
                        if self.b[self.p] == 0xff {
                            self.p += 1;
                            break;
                        }
                        let cb = self.byte()?;
                        if cb >> 5 != major {
                            return err("chunk of wrong type", self.p);
                        }
                        let (cl, _cmin, cindef) = self.arg(cb & 0x1f)?;
                        if cindef {
                            return err("nested indefinite chunk", self.p);
                        }
                        let s = self.take(cl as usize)?;
                        chunks.push(cl as usize);
                        data.extend_from_slice(s);
                    }
                } else {
                    let s = self.take(v as usize)?;
                    data.extend_from_slice(s);
                }
                let kind = if major == 2 { Kind::Bytes(data) } else { Kind::Text(data) };
                Node { kind, start, end: self.p, minimal: min, indef, chunks }
            }
            4 => {
                let (v, min, indef) = self.arg(info)?;
                let mut items = Vec::new();
                if indef {
                    loop {
                        if self.p >= self.b.len() {
                            return err("eof in array", self.p);
                        }
                        if self.b[self.p] == 0xff {
                            self.p += 1;
                            break;
                        }
                        items.push(self.node()?);
                    }
                } else {
                    if v as usize > self.b.len() {
                        return err("array length beyond input", start);
                    }
                    for _ in 0..v {
                        items.push(self.node()?);
                    }
                }
                Node { kind: Kind::Array(items), start, end: self.p, minimal: min, indef, chunks: vec![] }
            }
            5 => {
                let (v, min, indef) = self.arg(info)?;
                let mut items = Vec::new();
                if indef {
                    loop {
                        if self.p >= self.b.len() {
                            return err("eof in map", self.p);
                        }
                        if self.b[self.p] == 0xff {
                            self.p += 1;
                            break;
                        }
                        let k = self.node()?;
                        let val = self.node()?;
                        items.push((k, val));
                    }
                } else {
                    if v as usize > self.b.len() {
                        return err("map length beyond input", start);
                    }
                    for _ in 0..v {
                        let k = self.node()?;
                        let val = self.node()?;
                        items.push((k, val));
                    }
                }
                Node { kind: Kind::Map(items), start, end: self.p, minimal: min, indef, chunks: vec![] }
            }
            6 => {
                let (v, min, indef) = self.arg(info)?;
                if indef {
                    return err("indefinite tag", start);
                }
                let inner = self.node()?;
                Node { kind: Kind::Tag(v, Box::new(inner)), start, end: self.p, minimal: min, indef: false, chunks: vec![] }
            }
            _ => {
                // major 7
                match info {
                    0..=23 => Node { kind: Kind::Simple(info), start, end: self.p, minimal: true, indef: false, chunks: vec![] },
                    24 => {
                        let v = self.byte()?;
                        Node { kind: Kind::Simple(v), start, end: self.p, minimal: v >= 32, indef: false, chunks: vec![] }
                    }
                    25 => {
                        let s = self.take(2)?;
                        Node { kind: Kind::Float(u16::from_be_bytes([s[0], s[1]]) as u64, 2), start, end: self.p, minimal: true, indef: false, chunks: vec![] }
                    }
                    26 => {
                        let s = self.take(4)?;
                        Node { kind: Kind::Float(u32::from_be_bytes([s[0], s[1], s[2], s[3]]) as u64, 4), start, end: self.p, minimal: true, indef: false, chunks: vec![] }
                    }
                    27 => {
                        let s = self.take(8)?;
                        let mut a = [0u8; 8];
                        a.copy_from_slice(s);
                        Node { kind: Kind::Float(u64::from_be_bytes(a), 8), start, end: self.p, minimal: true, indef: false, chunks: vec![] }
                    }
                    31 => return err("break outside indefinite container", start),
                    _ => return err("reserved simple", start),
                }
            }
        };
        self.depth -= 1;
        Ok(r)
    }
}

/// Parse exactly one item covering the whole input.
pub fn parse(b: &[u8]) -> Result<Node, CborError> {
    let mut r = Reader::new(b);
    let n = r.node()?;
    if r.p != b.len() {
        return err("trailing bytes", r.p);
    }
    Ok(n)
}

impl Node {
    pub fn span<'a>(&self, whole: &'a [u8]) -> &'a [u8] {
        &whole[self.start..self.end]
    }
    pub fn len(&self) -> usize {
        self.end - self.start
    }
    pub fn as_u64(&self) -> Option<u64> {
        match &self.kind {
            Kind::UInt(v) => Some(*v),
            _ => None,
        }
    }
    /// signed integer value of uint / nint
    pub fn as_i128(&self) -> Option<i128> {
        match &self.kind {
            Kind::UInt(v) => Some(*v as i128),
            Kind::NInt(v) => Some(-1 - (*v as i128)),
            _ => None,
        }
    }
    pub fn as_bytes(&self) -> Option<&[u8]> {
        match &self.kind {
            Kind::Bytes(b) => Some(b),
            _ => None,
        }
    }
    pub fn as_text(&self) -> Option<&[u8]> {
        match &self.kind {
            Kind::Text(b) => Some(b),
            _ => None,
        }
    }
    pub fn as_array(&self) -> Option<&Vec<Node>> {
        match &self.kind {
            Kind::Array(a) => Some(a),
            _ => None,
        }
    }
    pub fn as_map(&self) -> Option<&Vec<(Node, Node)>> {
        match &self.kind {
            Kind::Map(a) => Some(a),
            _ => None,
        }
    }
    pub fn is_null(&self) -> bool {
        matches!(self.kind, Kind::Simple(22))
    }
    pub fn as_bool(&self) -> Option<bool> {
        match self.kind {
            Kind::Simple(20) => Some(false),
            Kind::Simple(21) => Some(true),
            _ => None,
        }
    }
    /// strip any tags; returns (tags outermost first, inner)
    pub fn untag(&self) -> (Vec<u64>, &Node) {
        let mut tags = vec![];
        let mut n = self;
        while let Kind::Tag(t, inner) = &n.kind {
            tags.push(*t);
            n = inner;
        }
        (tags, n)
    }
    /// elements of a `set<a>`: `#6.258([..])` or a bare array
    pub fn set_items(&self) -> Option<&Vec<Node>> {
        match &self.kind {
            Kind::Tag(258, inner) => inner.as_array(),
            Kind::Array(a) => Some(a),
            _ => None,
        }
    }
    /// lookup in a map with unsigned keys (first match)
    pub fn get(&self, key: u64) -> Option<&Node> {
        self.as_map()?.iter().find(|(k, _)| k.as_u64() == Some(key)).map(|(_, v)| v)
    }
    pub fn idx(&self, i: usize) -> Option<&Node> {
        self.as_array()?.get(i)
    }
}

// ------------------------------------------------------------------ writer

pub fn head(out: &mut Vec<u8>, major: u8, v: u64) {
    head_w(out, major, v, 0)
}

/// width: 0 = minimal, 1/2/4/8 = at least that many argument bytes
pub fn head_w(out: &mut Vec<u8>, major: u8, v: u64, width: u8) {
    let need: u8 = if v < 24 {
        0
    } else if v <= 0xff {
        1
    } else if v <= 0xffff {
        2
    } else if v <= 0xffff_ffff {
        4
    } else {
        8
    };
    let w = need.max(width);
    let m = major << 5;
    match w {
        0 => out.push(m | v as u8),
        1 => {
            out.push(m | 24);
            out.push(v as u8)
        }
        2 => {
            out.push(m | 25);
            out.extend_from_slice(&(v as u16).to_be_bytes())
        }
        4 => {
            out.push(m | 26);
            out.extend_from_slice(&(v as u32).to_be_bytes())
        }
        _ => {
            out.push(m | 27);
            out.extend_from_slice(&v.to_be_bytes())
        }
    }
}

pub fn w_uint(out: &mut Vec<u8>, v: u64) {
    head(out, 0, v)
}
pub fn w_bytes(out: &mut Vec<u8>, b: &[u8]) {
    head(out, 2, b.len() as u64);
    out.extend_from_slice(b)
}
pub fn w_array(out: &mut Vec<u8>, n: u64) {
    head(out, 4, n)
}
pub fn w_map(out: &mut Vec<u8>, n: u64) {
    head(out, 5, n)
}
pub fn w_tag(out: &mut Vec<u8>, t: u64) {
    head(out, 6, t)
}
pub fn w_int(out: &mut Vec<u8>, v: i128) {
    if v >= 0 {
        head(out, 0, v as u64)
    } else {
        head(out, 1, (-1 - v) as u64)
    }
}

/// Encoding choices of a "foreign peer": what another wallet, cardano-cli or a hardware
/// signer may legitimately produce for the same abstract item.
#[derive(Clone, Debug, Default)]
pub struct EncStats {
    pub wide_heads: u32,
    pub indef_containers: u32,
    pub chunked_strings: u32,
    pub permuted_maps: u32,
    pub tag_toggles: u32,
}

pub struct Foreign<'r> {
    pub rng: &'r mut Rng,
    /// per-mille probabilities
    pub p_wide: u64,
    pub p_indef: u64,
    pub p_chunk: u64,
    pub p_perm: u64,
    /// a `#6.258([..])` set written as the bare array older producers emit
    pub p_untag: u64,
    pub stats: EncStats,
}

impl<'r> Foreign<'r> {
    pub fn new(rng: &'r mut Rng, p_wide: u64, p_indef: u64, p_chunk: u64, p_perm: u64) -> Self {
        Foreign { rng, p_wide, p_indef, p_chunk, p_perm, p_untag: 0, stats: EncStats::default() }
    }
    fn width(&mut self) -> u8 {
        if self.rng.below(1000) < self.p_wide {
            self.stats.wide_heads += 1;
            *self.rng.pick(&[1u8, 2, 4, 8])
        } else {
            0
        }
    }
    /// Re-emit `n` (semantically equal). `keep` = nodes whose original bytes must be copied verbatim.
    pub fn emit(&mut self, n: &Node, out: &mut Vec<u8>) {
        match &n.kind {
            Kind::UInt(v) => {
                let w = self.width();
                head_w(out, 0, *v, w)
            }
            Kind::NInt(v) => {
                let w = self.width();
                head_w(out, 1, *v, w)
            }
            Kind::Bytes(b) | Kind::Text(b) => {
                let major = if matches!(n.kind, Kind::Bytes(_)) { 2 } else { 3 };
                if b.len() > 1 && self.rng.below(1000) < self.p_chunk && major == 2 {
                    self.stats.chunked_strings += 1;
                    out.push((major << 5) | 31);
                    let mut p = 0;
                    while p < b.len() {
                        let l = 1 + self.rng.usize_below((b.len() - p).min(64));
                        head(out, major, l as u64);
                        out.extend_from_slice(&b[p..p + l]);
                        p += l;
                    }
                    out.push(0xff);
                } else {
                    let w = self.width();
                    head_w(out, major, b.len() as u64, w);
                    out.extend_from_slice(b);
                }
            }
            Kind::Array(items) => {
                if self.rng.below(1000) < self.p_indef {
                    self.stats.indef_containers += 1;
                    out.push((4 << 5) | 31);
                    for i in items {
                        self.emit(i, out);
                    }
                    out.push(0xff);
                } else {
                    let w = self.width();
                    head_w(out, 4, items.len() as u64, w);
                    for i in items {
                        self.emit(i, out);
                    }
                }
            }
            Kind::Map(items) => {
                let mut order: Vec<usize> = (0..items.len()).collect();
                if items.len() > 1 && self.rng.below(1000) < self.p_perm {
                    self.stats.permuted_maps += 1;
                    self.rng.shuffle(&mut order);
                }
                let indef = self.rng.below(1000) < self.p_indef;
                if indef {
                    self.stats.indef_containers += 1;
                    out.push((5 << 5) | 31);
                } else {
                    let w = self.width();
                    head_w(out, 5, items.len() as u64, w);
                }
                for i in order {
                    self.emit(&items[i].0, out);
                    self.emit(&items[i].1, out);
                }
                if indef {
                    out.push(0xff);
                }
            }
            Kind::Tag(258, inner) if self.p_untag > 0 && matches!(inner.kind, Kind::Array(_)) && self.rng.below(1000) < self.p_untag => {
                self.stats.tag_toggles += 1;
                self.emit(inner, out);
            }
            Kind::Tag(t, inner) => {
                let w = self.width();
                head_w(out, 6, *t, w);
                self.emit(inner, out);
            }
            Kind::Simple(v) => {
                if *v < 24 {
                    out.push(0xe0 | v)
                } else {
                    out.push(0xf8);
                    out.push(*v)
                }
            }
            Kind::Float(bits, w) => match w {
                2 => {
                    out.push(0xf9);
                    out.extend_from_slice(&(*bits as u16).to_be_bytes())
                }
                4 => {
                    out.push(0xfa);
                    out.extend_from_slice(&(*bits as u32).to_be_bytes())
                }
                _ => {
                    out.push(0xfb);
                    out.extend_from_slice(&bits.to_be_bytes())
                }
            },
        }
    }
}

/// Plain minimal re-emission of a tree (definite lengths, minimal heads, same order).
pub fn emit_plain(n: &Node, out: &mut Vec<u8>) {
    let mut r = Rng::new(0);
    let mut f = Foreign::new(&mut r, 0, 0, 0, 0);
    f.emit(n, out);
}

/// Structural (semantic) equality ignoring encoding choices and spans.
pub fn sem_eq(a: &Node, b: &Node) -> bool {
    match (&a.kind, &b.kind) {
        (Kind::Array(x), Kind::Array(y)) => x.len() == y.len() && x.iter().zip(y).all(|(p, q)| sem_eq(p, q)),
        (Kind::Map(x), Kind::Map(y)) => x.len() == y.len() && x.iter().zip(y).all(|(p, q)| sem_eq(&p.0, &q.0) && sem_eq(&p.1, &q.1)),
        (Kind::Tag(t, x), Kind::Tag(u, y)) => t == u && sem_eq(x, y),
        (x, y) => x == y,
    }
}

#[cfg(test)]
mod tests {
    use super::*;
    #[test]
    fn roundtrip_basic() {
        let b = hex::decode("a20081825820000000000000000000000000000000000000000000000000000000000000000000018182581d60aaaaaaaaaaaaaaaaaaaaaaaaaaaaaaaaaaaaaaaaaaaaaaaaaaaaaaaa1a000f4240").unwrap();
        let n = parse(&b).unwrap();
        let mut o = vec![];
        emit_plain(&n, &mut o);
        assert_eq!(o, b);
        assert!(parse(&[0x18, 0x05]).unwrap().minimal == false);
        assert!(parse(&[0x9f, 0x01, 0xff]).unwrap().indef);
        assert!(parse(&[0x9f, 0x01]).is_err());
        assert!(parse(&[0x01, 0x01]).is_err());
    }
}

mod cbor;
mod ctl;
mod exec;
mod prng;
mod props;
mod runner;
mod scn;
mod oracle;
mod sess;
mod strict;
mod wallet;
mod world;

use runner::{Opts, Prop, Tier};

fn usage() -> ! {
    eprintln!("usage: cslsim run <Cxx> [quick|thorough] [--runs N] [--workers N] [--digest-only] [--no-evidence]\n       cslsim replay <file>\n       cslsim case <Cxx> <run> [quick|thorough]");
    std::process::exit(2)
}

macro_rules! dispatch {
    ($id:expr, $f:ident $(, $arg:expr)*) => {
        match $id {
            "C08" => $f(&props::c08::C08 $(, $arg)*),
            "C03" => $f(&props::c03::C03 $(, $arg)*),
            "C04" => $f(&props::c04::C04 $(, $arg)*),
            "C05" => $f(&props::builder::C05 $(, $arg)*),
            "C06" => $f(&props::builder::C06 $(, $arg)*),
            "C07" => $f(&props::builder::C07 $(, $arg)*),
            "C09" => $f(&props::builder2::C09 $(, $arg)*),
            "C10" => $f(&props::builder2::C10 $(, $arg)*),
            "C13" => $f(&props::c13::C13 $(, $arg)*),
            "C16" => $f(&props::c16::C16 $(, $arg)*),
            "C18" => $f(&props::builder2::C18 $(, $arg)*),
            "C19" => $f(&props::builder2::C19 $(, $arg)*),
            "C20" => $f(&props::builder2::C20 $(, $arg)*),
            other => {
                eprintln!("harness error: no check registered for property {}", other);
                std::process::exit(2)
            }
        }
    };
}

fn do_run<P: Prop>(p: &P, o: &Opts) -> i32 {
    runner::run_batch(p, o)
}
fn do_replay<P: Prop>(p: &P, path: &str, text: &str) -> i32 {
    runner::replay(p, path, text)
}
fn do_case<P: Prop>(p: &P, seed: u64, run: u64, tier: Tier) -> i32 {
    let cs = runner::case_seed(p.id(), seed, run);
    let c = p.pin(&p.generate(cs, tier));
    println!("{}", serde_json::to_string_pretty(&c).unwrap());
    let o = p.execute(&c);
    eprintln!("nontrivial={} violations={:?} counters={:?}", o.nontrivial, o.violations, o.counters);
    0
}

fn main() {
    // library panics are caught and counted by the interpreter; keep stderr quiet
    std::panic::set_hook(Box::new(|_| {}));
    let args: Vec<String> = std::env::args().collect();
    if args.len() < 2 {
        usage();
    }
    let seed: u64 = std::env::var("VERIF_SEED").ok().and_then(|s| s.parse().ok()).unwrap_or(1);
    let verif_dir = std::env::var("VERIF_DIR").unwrap_or_else(|_| "/verif".to_string());
    let tier_of = |s: Option<&String>| -> Tier {
        let t = s.cloned().or_else(|| std::env::var("VERIF_TIER").ok()).unwrap_or_else(|| "quick".into());
        match t.as_str() {
            "thorough" => Tier::Thorough,
            _ => Tier::Quick,
        }
    };
    let code = match args[1].as_str() {
        "run" => {
            if args.len() < 3 {
                usage();
            }
            let id = args[2].clone();
            let mut tier_arg = None;
            let mut runs = None;
            let mut workers = std::thread::available_parallelism().map(|n| n.get()).unwrap_or(16);
            let mut digest_only = false;
            let mut write_evidence = true;
            let mut i = 3;
            while i < args.len() {
                match args[i].as_str() {
                    "quick" | "thorough" => tier_arg = Some(args[i].clone()),
                    "--runs" => {
                        i += 1;
                        runs = args.get(i).and_then(|s| s.parse().ok());
                    }
                    "--workers" => {
                        i += 1;
                        workers = args.get(i).and_then(|s| s.parse().ok()).unwrap_or(workers);
                    }
                    "--digest-only" => {
                        digest_only = true;
                        write_evidence = false;
                    }
                    "--no-evidence" => write_evidence = false,
                    _ => usage(),
                }
                i += 1;
            }
            let o = Opts { verif_dir, seed, tier: tier_of(tier_arg.as_ref()), workers, runs_override: runs, write_evidence, digest_only };
            dispatch!(id.as_str(), do_run, &o)
        }
        "replay" => {
            if args.len() < 3 {
                usage();
            }
            let text = match std::fs::read_to_string(&args[2]) {
                Ok(t) => t,
                Err(e) => {
                    eprintln!("harness error: cannot read {}: {}", args[2], e);
                    std::process::exit(2)
                }
            };
            let v: serde_json::Value = serde_json::from_str(&text).unwrap_or_else(|e| {
                eprintln!("harness error: {} is not JSON: {}", args[2], e);
                std::process::exit(2)
            });
            let id = v["property"].as_str().unwrap_or("").to_string();
            dispatch!(id.as_str(), do_replay, &args[2], &text)
        }
        "case" => {
            if args.len() < 4 {
                usage();
            }
            let id = args[2].clone();
            let run: u64 = args[3].parse().unwrap_or(0);
            let tier = tier_of(args.get(4));
            dispatch!(id.as_str(), do_case, seed, run, tier)
        }
        _ => usage(),
    };
    std::process::exit(code)
}

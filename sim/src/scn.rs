//! A scenario is everything one simulated run depends on, as plain data: knobs (protocol
//! parameters), the world, the operation list and the answers of the two nondeterminism seams.
use crate::ctl::RngPlan;
use crate::world::*;
use serde::{Deserialize, Serialize};

#[derive(Serialize, Deserialize, Clone, Debug)]
pub struct Knobs {
    pub fee_a: u64,
    pub fee_b: u64,
    pub cpb: u64,
    pub max_value_size: u32,
    pub max_tx_size: u32,
    pub key_deposit: u64,
    pub pool_deposit: u64,
    /// (mem price num, den, step price num, den)
    pub ex_prices: Option<(u64, u64, u64, u64)>,
    pub ref_script_price: Option<(u64, u64)>,
    pub prefer_pure_change: bool,
    pub dedup_ref_inputs: bool,
    pub do_not_burn: bool,
}

impl Default for Knobs {
    fn default() -> Self {
        Knobs {
            fee_a: 44,
            fee_b: 155381,
            cpb: 4310,
            max_value_size: 5000,
            max_tx_size: 16384,
            key_deposit: 2_000_000,
            pool_deposit: 500_000_000,
            ex_prices: Some((577, 10000, 721, 10000000)),
            ref_script_price: Some((15, 1)),
            prefer_pure_change: false,
            dedup_ref_inputs: false,
            do_not_burn: false,
        }
    }
}

#[derive(Serialize, Deserialize, Clone, Copy, Debug, PartialEq, Eq, Hash, PartialOrd, Ord)]
pub enum Strategy {
    LF,
    RI,
    LFMA,
    RIMA,
}
pub const STRATEGIES: [Strategy; 4] = [Strategy::LF, Strategy::RI, Strategy::LFMA, Strategy::RIMA];

/// How a script is made available.
#[derive(Serialize, Deserialize, Clone, Debug, PartialEq, Eq, Hash)]
pub enum ScriptUse {
    /// in the witness set
    Witness,
    /// by reference to the UTxO (index into world.utxos) that carries it as reference script
    Ref(usize),
}

#[derive(Serialize, Deserialize, Clone, Debug, PartialEq, Eq, Hash)]
pub enum DatumUse {
    None,
    Witness(DatumId),
    /// by reference to a UTxO carrying the datum inline
    Ref(usize),
}

#[derive(Serialize, Deserialize, Clone, Debug, PartialEq, Eq, Hash)]
pub struct Wit {
    pub script: ScriptId,
    pub how: ScriptUse,
    /// Plutus only
    #[serde(default = "datum_none")]
    pub datum: DatumUse,
    /// Plutus only: unique redeemer payload (an integer datum), ex units
    #[serde(default)]
    pub red: u32,
    #[serde(default)]
    pub mem: u64,
    #[serde(default)]
    pub steps: u64,
    /// keys declared on the script source (`set_required_signers`); None = not declared
    #[serde(default, skip_serializing_if = "Option::is_none")]
    pub signers: Option<Vec<KeyId>>,
}
fn datum_none() -> DatumUse {
    DatumUse::None
}

#[derive(Serialize, Deserialize, Clone, Debug, PartialEq, Eq, Hash)]
pub struct OutSpec {
    pub addr: AddrSpec,
    pub coin: u64,
    #[serde(default, skip_serializing_if = "Vec::is_empty")]
    pub assets: Vec<AssetQ>,
    #[serde(default, skip_serializing_if = "Option::is_none")]
    pub datum: Option<DatumAt>,
    #[serde(default, skip_serializing_if = "Option::is_none")]
    pub script_ref: Option<ScriptId>,
    /// coin := min ADA computed by the library's output builder
    #[serde(default)]
    pub min_coin: bool,
    /// 0 = the value as constructed; 1 = the output arrives through `from_bytes` in the pre-Alonzo
    /// array form (only when it has no inline datum / script reference); 2 = through `from_bytes`
    /// in the map form. The library remembers the form and re-serializes in it.
    #[serde(default, skip_serializing_if = "is_zero_u8")]
    pub form: u8,
}
fn is_zero_u8(x: &u8) -> bool {
    *x == 0
}

#[derive(Serialize, Deserialize, Clone, Debug, PartialEq, Eq, Hash)]
pub enum DRepSpec {
    Key(KeyId),
    Script(ScriptId),
    Abstain,
    NoConfidence,
}

#[derive(Serialize, Deserialize, Clone, Debug, PartialEq, Eq, Hash)]
pub enum CertSpec {
    StakeReg(Cred),
    StakeRegCoin(Cred, u64),
    StakeDereg(Cred),
    StakeDeregCoin(Cred, u64),
    StakeDeleg(Cred, KeyId),
    PoolReg { operator: KeyId, owners: Vec<KeyId>, reward: Cred, pledge: u64, cost: u64, relays: u8, meta: bool },
    PoolRetire(KeyId, u32),
    GenesisDeleg(u8, u8, u8),
    MirPot(u8, u64),
    MirCreds(u8, Vec<(Cred, i64)>),
    CommitteeHotAuth(Cred, Cred),
    CommitteeColdResign(Cred, bool),
    DRepReg(Cred, u64, bool),
    DRepDereg(Cred, u64),
    DRepUpdate(Cred, bool),
    StakeVoteDeleg(Cred, KeyId, DRepSpec),
    VoteDeleg(Cred, DRepSpec),
    StakeRegDeleg(Cred, KeyId, u64),
    VoteRegDeleg(Cred, DRepSpec, u64),
    StakeVoteRegDeleg(Cred, KeyId, DRepSpec, u64),
}

#[derive(Serialize, Deserialize, Clone, Debug, PartialEq, Eq, Hash)]
pub enum VoterSpec {
    CcHot(Cred),
    DRep(Cred),
    Pool(KeyId),
}

#[derive(Serialize, Deserialize, Clone, Debug, PartialEq, Eq, Hash)]
pub enum ActionSpec {
    ParamChange { prev: Option<(u32, u32)>, policy: Option<ScriptId>, fields: u8 },
    HardFork { prev: Option<(u32, u32)>, major: u32, minor: u32 },
    TreasuryWdr { to: Vec<(Cred, u64)>, policy: Option<ScriptId> },
    NoConfidence { prev: Option<(u32, u32)> },
    UpdateCommittee { prev: Option<(u32, u32)>, remove: Vec<Cred>, add: Vec<(Cred, u32)>, q: (u64, u64) },
    NewConstitution { prev: Option<(u32, u32)>, script: Option<ScriptId> },
    Info,
}

#[derive(Serialize, Deserialize, Clone, Debug, PartialEq, Eq, Hash)]
pub struct ProposalSpec {
    pub deposit: u64,
    pub reward: Cred,
    pub action: ActionSpec,
    /// the same anchored document (same hash) published under another url
    #[serde(default)]
    pub mirror: u8,
}

#[derive(Serialize, Deserialize, Clone, Debug, PartialEq, Eq, Hash)]
pub struct ChangeSpec {
    pub addr: AddrSpec,
    #[serde(default, skip_serializing_if = "Option::is_none")]
    pub datum: Option<DatumAt>,
    #[serde(default, skip_serializing_if = "Option::is_none")]
    pub script_ref: Option<ScriptId>,
}

#[derive(Serialize, Deserialize, Clone, Debug, PartialEq, Eq, Hash)]
pub enum MetaSpec {
    /// label, small metadatum tree seed
    Metadatum(u64, u8),
    Json(u64, u8),
    /// a JSON text of `chars` characters, each `bytes_per_char` bytes long in UTF-8 (1 = ASCII, 2 = 'é', 3 = '€')
    Text(u64, u8, u8),
    /// auxiliary data without content: 0 = metadata map without labels, 1 = an empty `AuxiliaryData`,
    /// 2 = auxiliary data whose only content is an empty native-script list
    Empty(u8),
    /// auxiliary data with scripts (forces the tag-259 form)
    AuxScripts { native: Vec<ScriptId>, plutus: Vec<ScriptId>, prefer_alonzo: bool },
}

#[derive(Serialize, Deserialize, Clone, Debug, PartialEq, Eq, Hash)]
pub enum Op {
    // ---- explicit inputs (held in the session's TxInputsBuilder, then set_inputs)
    /// world utxo -> add_regular_utxo
    InUtxo(usize),
    /// world utxo -> add_key_input / add_bootstrap_input by kind (the older entry points)
    InLegacy(usize),
    /// script-locked world utxo with its witness; `by_utxo` chooses add_*_script_utxo over add_*_script_input
    InScript {
        utxo: usize,
        wit: Wit,
        by_utxo: bool,
        /// the input is first handed over with this other Plutus script by mistake (the entry point does not
        /// look at the address), then correctly: the later call is the one that counts
        #[serde(default, skip_serializing_if = "Option::is_none")]
        mistaken: Option<ScriptId>,
    },
    InReqSigner(KeyId),
    /// a key-owned UTxO first added by mistake as a Plutus-script input (the entry point does not
    /// look at the address), then added again correctly as a regular input: the second call replaces the first
    InScriptThenRegular {
        utxo: usize,
        wit: Wit,
        /// the mistaken attempt goes through `add_plutus_script_utxo`, which looks at the address and has to
        /// refuse a key-owned UTxO (F4); only then does the wallet fall back to the regular entry point
        #[serde(default)]
        checked: bool,
    },
    /// add directly on the TransactionBuilder (deprecated pass-through; usable after a selection)
    InDirect(usize),
    // ---- collateral
    CollUtxo(usize),
    CollReturn(OutSpec),
    CollTotal(u64),
    CollReturnAndTotal(OutSpec),
    CollTotalAndReturn(u64, AddrSpec),
    RemoveCollReturn,
    RemoveCollTotal,
    // ---- outputs
    Out(OutSpec),
    MintAndOut { script: ScriptId, name: Vec<u8>, qty: u64, addr: AddrSpec, coin: Option<u64> },
    // ---- certificates / withdrawals / mint / governance
    Cert(CertSpec, Option<Wit>),
    Wdr(Cred, u64, Option<Wit>),
    Mint { wit: Wit, name: Vec<u8>, qty: i64, set: bool },
    Vote { voter: VoterSpec, action: (u32, u32), vote: u8, anchor: bool, wit: Option<Wit> },
    Propose(ProposalSpec, Option<Wit>),
    // ---- misc body fields
    Meta(MetaSpec),
    ReqSigner(KeyId),
    RefIn(usize, bool),
    ExtraDatum(DatumId),
    Ttl(u64),
    Start(u64),
    Donation(u64),
    Treasury(u64),
    FeeExact(u64),
    FeeMin(u64),
    // ---- removals and the older whole-collection setters
    RemoveTtl,
    RemoveStart,
    RemoveCerts,
    RemoveWithdrawals,
    RemoveMint,
    RemoveAux,
    RemoveScriptDataHash,
    /// `set_certs` with the key-credential certificates added so far (deprecated entry point)
    SetCertsLegacy,
    /// `set_certs` with the key-credential certificates added so far followed by this one, which
    /// the old setter refuses when it needs a script witness (F4: a failed call must change nothing)
    SetCertsLegacyWith(CertSpec),
    /// `set_withdrawals` with the key withdrawals added so far (deprecated entry point)
    SetWithdrawalsLegacy,
    /// deprecated `add_mint_asset` / `set_mint_asset` with an inline native policy
    MintLegacy { script: ScriptId, name: Vec<u8>, qty: i64, set: bool },
    /// deprecated `set_mint`: the whole mint as the builder reports it (`get_mint`, `get_mint_scripts`) is handed
    /// back through the old whole-collection setter - only when every policy so far is an inline native script without
    /// a signer declaration, so that nothing is lost. `true`: one script is left out, the call has to be refused (F4)
    SetMintLegacy(bool),
    /// hand the session's inputs builder over again (drops inputs a selection added)
    SetInputsAgain,
    /// hand the unchanged collection builders over again (bit 0 collateral, 1 certificates, 2 withdrawals,
    /// 3 mint, 4 votes, 5 proposals; only those handed over before): a repeated delivery that changes nothing
    HandOverAgain(u8),
    // ---- balancing
    Select(Strategy, Vec<usize>),
    Change(ChangeSpec),
    SelectAndChange(Strategy, Vec<usize>, ChangeSpec),
    SelectChangeCollateral(Strategy, Vec<usize>, ChangeSpec, u64),
    // ---- hashes / build
    /// languages (bitset 1=V1,2=V2,4=V3) whose cost models are passed
    ScriptDataHash(u8),
    PresetScriptDataHash,
    Build,
    BuildTx,
    /// `build_tx_unsafe`: the transaction without the final balance / fee validation (the size limit still applies)
    BuildTxUnsafe,
    /// read-only calls (sizes, fees, totals, collections) in the middle of a history; each is made
    /// twice and must answer the same both times
    Observe,
    /// continue the history on clones of the builder and of the session's collection builders
    ForkClone,
}

#[derive(Serialize, Deserialize, Clone, Debug)]
pub struct Scenario {
    pub knobs: Knobs,
    pub world: World,
    pub ops: Vec<Op>,
    pub rng: RngPlan,
    pub hash_seed: u64,
    /// free-form labels of the profile that generated it (for evidence signatures)
    #[serde(default)]
    pub profile: String,
    /// non-zero: certificates and proposals reach the builders the way they come out of another
    /// producer's bytes (decoded from an equal-valued foreign encoding: nested sets without tag 258,
    /// wide heads, indefinite arrays), each occurrence with its own encoding
    #[serde(default)]
    pub alt_values: u8,
}

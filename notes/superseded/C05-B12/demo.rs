// Demonstration for seeded change B (property C05: built transactions conserve value exactly).
//
// History: outputs are added, balancing succeeds (add_change_if_needed / add_inputs_from_and_change),
// then the caller issues another fee request (set_min_fee / set_fee) and asks for the transaction.
// Whatever build_tx() hands out must satisfy  inputs == outputs + fee  exactly.
use crate::tests::fakes::{
    fake_base_address, fake_change_address, fake_reallistic_tx_builder, fake_tx_hash,
};
use crate::*;

const INPUT_COIN: u64 = 10_000_000;

fn utxo(n: u8, coin: u64) -> TransactionUnspentOutput {
    TransactionUnspentOutput::new(
        &TransactionInput::new(&fake_tx_hash(n), 0),
        &TransactionOutput::new(&fake_base_address(n as u32), &Value::new(&Coin::from(coin))),
    )
}

/// (sum of outputs + fee) of the transaction as it is written to the wire
fn produced(tx: &Transaction) -> u64 {
    let reparsed = Transaction::from_bytes(tx.to_bytes()).unwrap();
    let body = reparsed.body();
    let mut total: u64 = body.fee().into();
    let outputs = body.outputs();
    for i in 0..outputs.len() {
        let coin: u64 = outputs.get(i).amount().coin().into();
        assert!(outputs.get(i).amount().multiasset().is_none());
        total += coin;
    }
    total
}

fn balanced_by_change() -> TransactionBuilder {
    let mut tx_builder = fake_reallistic_tx_builder();
    let u = utxo(1, INPUT_COIN);
    let mut inputs = TxInputsBuilder::new();
    inputs.add_regular_utxo(&u).unwrap();
    tx_builder.set_inputs(&inputs);
    tx_builder
        .add_output(&TransactionOutput::new(
            &fake_base_address(7),
            &Value::new(&Coin::from(3_000_000u64)),
        ))
        .unwrap();
    assert!(tx_builder.add_change_if_needed(&fake_change_address()).unwrap());
    tx_builder
}

fn check(tx_builder: &TransactionBuilder, consumed: u64, what: &str) {
    // a refused build is fine for this property, a released transaction has to balance
    if let Ok(tx) = tx_builder.build_tx() {
        assert_eq!(
            produced(&tx),
            consumed,
            "{}: outputs + fee differ from the inputs",
            what
        );
    }
}

#[test]
fn seeded_demo_b_lower_bound_requested_after_balancing() {
    let mut tx_builder = balanced_by_change();
    let fee: u64 = tx_builder.get_fee_if_set().unwrap().into();
    check(&tx_builder, INPUT_COIN, "right after balancing");

    tx_builder.set_min_fee(&Coin::from(fee + 25_000));
    check(&tx_builder, INPUT_COIN, "set_min_fee after balancing");
}

#[test]
fn seeded_demo_b_exact_fee_requested_after_balancing() {
    let mut tx_builder = balanced_by_change();
    let fee: u64 = tx_builder.get_fee_if_set().unwrap().into();

    tx_builder.set_fee(&Coin::from(fee + 1));
    check(&tx_builder, INPUT_COIN, "set_fee after balancing");
}

#[test]
fn seeded_demo_b_selection_and_change_then_fee_request() {
    let mut tx_builder = fake_reallistic_tx_builder();
    tx_builder
        .add_output(&TransactionOutput::new(
            &fake_base_address(7),
            &Value::new(&Coin::from(3_000_000u64)),
        ))
        .unwrap();
    let mut utxos = TransactionUnspentOutputs::new();
    utxos.add(&utxo(1, INPUT_COIN));
    let balanced = tx_builder.add_inputs_from_and_change(
        &utxos,
        CoinSelectionStrategyCIP2::LargestFirst,
        &ChangeConfig::new(&fake_change_address()),
    );
    assert!(balanced.unwrap());
    let fee: u64 = tx_builder.get_fee_if_set().unwrap().into();

    tx_builder.set_min_fee(&Coin::from(2 * fee));
    check(&tx_builder, INPUT_COIN, "set_min_fee after add_inputs_from_and_change");
}
